//! Demonstration for change U (property C04: lock-step, pointwise adaptors).
//!
//! Place this file at `dasp_signal/tests/seed_demo_u.rs` and run
//! `cargo test -p dasp_signal --offline --test seed_demo_u`.

use dasp_signal::{self as signal, Signal};
use std::cell::{Cell, RefCell};
use std::panic::{catch_unwind, AssertUnwindSafe};

/// Part 1: a fault in the *carrier* (`a`) of `a.mul_amp(b)` at one particular frame.
///
/// The carrier closure fails once (without consuming anything) when asked for frame 2, the
/// caller catches the failure and simply retries. As the carrier is the first operand, the gain
/// signal must not have been touched by the failed call, so after the retry the two signals are
/// still in lock-step and the borrowed gain signal resumes where the adaptor left off.
fn fault_in_carrier() {
    let carrier_vals: [i16; 6] = [1000, 2000, 3000, 4000, 5000, 6000];
    let gain_vals: [f32; 6] = [1.0, 0.5, 0.25, 0.125, 2.0, 3.0];

    let idx = Cell::new(0usize);
    let failed_once = Cell::new(false);
    let carrier = signal::gen_mut(|| {
        let i = idx.get();
        if i == 2 && !failed_once.get() {
            failed_once.set(true);
            panic!("transient read failure");
        }
        idx.set(i + 1);
        [carrier_vals[i % carrier_vals.len()]]
    });

    let mut gains = signal::from_iter(gain_vals.iter().map(|&g| [g]));

    let mut got = Vec::new();
    {
        let mut out = carrier.mul_amp(gains.by_ref());
        let mut faults = 0;
        while got.len() < 4 {
            match catch_unwind(AssertUnwindSafe(|| out.next())) {
                Ok(f) => got.push(f[0]),
                Err(_) => faults += 1,
            }
        }
        assert_eq!(faults, 1);
    }

    // n-th output == n-th carrier frame * n-th gain frame.
    assert_eq!(got, vec![1000i16, 1000, 750, 500]);
    // Four frames were produced, so the borrowed gain signal resumes at its fifth frame.
    assert_eq!(gains.next(), [2.0f32]);
}

/// Part 2: two handles onto one multiplexed stream `[sample, gain, sample, gain, ...]`.
///
/// `a.mul_amp(b)` with `a` and `b` being two handles onto the same underlying reader
/// de-multiplexes the stream as long as each call pulls `a` and then `b`.
struct Shared<'a, I>(&'a RefCell<I>);

struct AsCarrier<'a, I>(Shared<'a, I>);
struct AsGain<'a, I>(Shared<'a, I>);

impl<'a, I: Iterator<Item = f64>> Signal for AsCarrier<'a, I> {
    type Frame = [i32; 1];
    fn next(&mut self) -> [i32; 1] {
        [(self.0).0.borrow_mut().next().unwrap_or(0.0) as i32]
    }
}

impl<'a, I: Iterator<Item = f64>> Signal for AsGain<'a, I> {
    type Frame = [f32; 1];
    fn next(&mut self) -> [f32; 1] {
        [(self.0).0.borrow_mut().next().unwrap_or(0.0) as f32]
    }
}

fn two_handles_one_stream() {
    let stream = vec![1000.0, 0.5, 2000.0, 0.25, -4000.0, 0.125];
    let cell = RefCell::new(stream.into_iter());
    let mut out = AsCarrier(Shared(&cell)).mul_amp(AsGain(Shared(&cell)));
    let got: Vec<i32> = (0..3).map(|_| out.next()[0]).collect();
    assert_eq!(got, vec![500, 500, -500]);
}

#[test]
fn seed_demo_u() {
    fault_in_carrier();
    two_handles_one_stream();
}
