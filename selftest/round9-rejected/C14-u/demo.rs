//! Demonstration for change U (property C14).
//!
//! A source whose `next()` fails transiently (panics once, without consuming anything, and works
//! again afterwards) is wrapped in a `Buffered` signal. The panic happens in the middle of a
//! refill that was triggered by `Buffered::next()`. The caller catches the panic and carries on.
//! Every frame that the source handed out must still be delivered, in order.

use dasp_ring_buffer as ring_buffer;
use dasp_signal::{self as signal, Signal};
use std::panic::{catch_unwind, AssertUnwindSafe};

#[test]
fn seed_demo_u() {
    // Source: 1.0, 2.0, 3.0, ... The first attempt to produce 3.0 fails (nothing is consumed).
    let mut n = 0u32;
    let mut failed_once = false;
    let mut pulls = 0usize;
    let source = signal::gen_mut(|| {
        if n == 2 && !failed_once {
            failed_once = true;
            panic!("transient source failure");
        }
        n += 1;
        pulls += 1;
        n as f32
    });

    let ring = ring_buffer::Bounded::from([0f32; 4]);
    let mut buffered = source.buffered(ring);

    // Silence the default panic message for the expected panic.
    let hook = std::panic::take_hook();
    std::panic::set_hook(Box::new(|_| {}));
    // The buffer is empty, so this starts a refill; the source fails on its third pull.
    let first = catch_unwind(AssertUnwindSafe(|| buffered.next()));
    std::panic::set_hook(hook);
    assert!(first.is_err(), "the source's panic must propagate");

    // Carry on. The source handed out 1.0 and 2.0 before failing, then continues with 3.0, ...
    let mut got = Vec::new();
    for _ in 0..3 {
        got.push(buffered.next());
    }
    got.extend(buffered.next_frames());
    got.push(buffered.next());
    drop(buffered);

    let want: Vec<f32> = (1..=got.len()).map(|i| i as f32).collect();
    assert_eq!(got, want, "frames pulled from the source were lost or reordered");
    // 2 frames before the failure, then whole buffers of 4 only.
    assert_eq!((pulls - 2) % 4, 0, "source pulled outside whole-buffer refills");
}
