//! C14 — buffered signal is a transparent prefetch of the source.
//!
//! One consumer with two ways of pulling (`next`, `next_frames` drained for k items) interleaved
//! by the scheduler, over a finite or endless probe source, starting from a recovered ring-buffer
//! state (any start offset, any pre-filled content).

use crate::probe::{Counted, ProbeIter, ProbeSignal, Pulls, TagFrame};
use dasp_ring_buffer::Bounded;
use dasp_signal::{self as signal, Signal};
use simcore::{check, check_eq, Observer, Op, OpSpec, Rng, Scenario, Source, Violation};
use std::collections::VecDeque;

pub struct BufferedScenario;

const O_NEXT: u8 = 0;
const O_BATCH: u8 = 1; // a = items to take from next_frames()
const O_REBUILD: u8 = 2; // into_parts + buffered() again
const O_DRAIN: u8 = 3; // until_exhausted (terminal)
const O_BATCH_METHOD: u8 = 4; // a = Iterator method, b = k
const O_FFWD: u8 = 5; // a = number of next() calls
const O_CLONE_SWAP: u8 = 6;

static OPS: [OpSpec; 7] = [
    OpSpec { name: "next", shrink: 0 },
    OpSpec { name: "next_frames_take", shrink: 1 },
    OpSpec { name: "into_parts_rebuild", shrink: 0 },
    OpSpec { name: "drain_until_exhausted", shrink: 0 },
    OpSpec { name: "next_frames_iterator_method", shrink: 2 },
    OpSpec { name: "fast_forward_next", shrink: 1 },
    OpSpec { name: "clone_swap", shrink: 0 },
];

const F_PREFILL: usize = 0;
const F_RECOVERED_START: usize = 1;
const F_EOF_INSIDE_REFILL: usize = 2;
const F_EOF_AT_REFILL_BOUNDARY: usize = 3;
const F_PARTIAL_BATCH: usize = 4;
const F_EMPTY_BATCH: usize = 5;
const F_REBUILD_NONEMPTY: usize = 6;
const F_EMPTY_SOURCE: usize = 7;
const F_SNAPSHOT: usize = 8;

const P_CAP1: usize = 0;
const P_REFILL_BY_BATCH: usize = 1;
const P_REFILL_BY_NEXT: usize = 2;
const P_EXHAUSTED_SEEN: usize = 3;
const P_DRAIN_PADDING: usize = 4;

struct Model<F> {
    cap: usize,
    buf: VecDeque<F>,
    pulled: u64,
    end: Option<u64>,
    /// refills requested by the caller *after* exhaustion (pulling past the end): each legitimately
    /// loads a whole buffer of equilibrium frames, so the "< one buffer of padding" clause, which
    /// speaks about draining, is only asserted when this is 0.
    overrun_refills: u64,
}

impl<F: TagFrame> Model<F> {
    fn src_frame(&self, i: u64) -> F {
        ProbeSignal::<F>::expect(9, self.end, i)
    }
    fn refill(&mut self, obs: &mut Observer) {
        if self.exhausted() {
            self.overrun_refills += 1;
        }
        if let Some(e) = self.end {
            let after = self.pulled + self.cap as u64;
            if self.pulled < e && after > e {
                obs.fault(F_EOF_INSIDE_REFILL);
            }
            if after == e || self.pulled == e {
                obs.fault(F_EOF_AT_REFILL_BOUNDARY);
            }
        }
        for _ in 0..self.cap {
            let f = self.src_frame(self.pulled);
            self.buf.push_back(f);
            self.pulled += 1;
        }
    }
    fn src_exhausted(&self) -> bool {
        matches!(self.end, Some(e) if self.pulled >= e)
    }
    fn exhausted(&self) -> bool {
        self.buf.is_empty() && self.src_exhausted()
    }
}

fn gen_op(r: &mut Rng, cap: usize, done: usize, steps: usize, drain_at_end: bool, w: &[u32; 3]) -> Option<Op> {
    if done > steps {
        return None;
    }
    if done == steps {
        return if drain_at_end { Some(Op::k(O_DRAIN)) } else { None };
    }
    if w[1] > 0 && r.chance(1, 12) {
        return Some(Op::kab(O_BATCH_METHOD, r.range(1, 5), r.range(0, cap as i64 + 1)));
    }
    if r.chance(1, 30) {
        return Some(Op::k(O_CLONE_SWAP));
    }
    if r.chance(1, 5000) {
        return Some(Op::ka(O_FFWD, *r.pick(&[1_000i64, 32_768, 65_537, 70_000])));
    }
    Some(match r.weighted(w) as u8 {
        O_NEXT => Op::k(O_NEXT),
        O_BATCH => Op::ka(
            O_BATCH,
            match r.below(4) {
                0 => 0,
                1 => cap as i64 + 1,
                _ => r.range(0, cap as i64),
            },
        ),
        _ => Op::k(O_REBUILD),
    })
}

fn drive<F: TagFrame, S: Signal<Frame = F> + Clone>(
    sig: S,
    pulls: Pulls,
    end: Option<u64>,
    src: &mut Source,
    obs: &mut Observer,
) -> Result<(), Violation> {
    let cap = src.cfg("cap", 1, 140_000, |r| match r.below(20) {
        0 if r.chance(1, 400) => *r.pick(&[46_511i64, 65_535, 65_537, 100_000]),
        0..=3 => 1,
        4..=7 => 2,
        8 => *r.pick(&[15i64, 16, 17, 31, 32, 33, 64, 65, 100, 128]),
        9 => r.range(9, 130),
        _ => r.range(1, 8),
    }) as usize;
    let start = src.cfg("rb_start", 0, cap as i64 - 1, |r| if r.bool() { 0 } else { r.range(0, cap as i64 - 1) }) as usize;
    let prefill = src.cfg("prefill", 0, cap as i64, |r| match r.below(4) {
        0 | 1 => 0,
        2 => cap as i64,
        _ => r.range(0, cap as i64),
    }) as usize;
    // how the ring buffer is made: 0 recovered raw parts (any start, any pre-fill), 1 `From` (empty), 2 `from_full`
    // (full of the storage's content), 3 `collect()` (empty, capacity = item count)
    let ctor = src.cfg("ring_ctor", 0, 3, |r| if r.chance(3, 4) { 0 } else { r.range(1, 3) });
    let (start, prefill) = match ctor {
        0 => (start, prefill),
        2 => (0, cap),
        _ => (0, 0),
    };
    let steps = src.cfg("steps", 0, 3000, |r| if r.chance(1, 40) { r.range(500, 3000) } else { r.range(0, 120) }) as usize;
    let drain_at_end = src.cfg("drain", 0, 1, |r| (end.is_some() && r.chance(2, 3)) as i64) == 1 && end.is_some();
    let w = [
        src.cfg("w_next", 0, 10, |r| r.range(0, 10)) as u32 + 1,
        src.cfg("w_batch", 0, 10, |r| r.range(0, 10)) as u32,
        src.cfg("w_rebuild", 0, 2, |r| r.range(0, 2)) as u32,
    ];
    // recovered ring buffer: dead slots hold a poison frame that must never be delivered
    let poison = F::tag(77, 7777);
    let mut data = vec![poison; cap];
    let mut m = Model::<F> {
        cap,
        buf: VecDeque::new(),
        pulled: 0,
        end,
        overrun_refills: 0,
    };
    for i in 0..prefill {
        let f = F::tag(8, i as u64);
        data[(start + i) % cap] = f;
        m.buf.push_back(f);
    }
    if prefill > 0 {
        obs.fault(F_PREFILL);
    }
    if start != 0 {
        obs.fault(F_RECOVERED_START);
    }
    if end == Some(0) {
        obs.fault(F_EMPTY_SOURCE);
    }
    if cap == 1 {
        obs.probe(P_CAP1);
    }
    // (half of the runs: a Vec whose allocation is larger than the buffer it holds)
    let data = if src.cfg("spare_capacity", 0, 1, |r| r.range(0, 1)) == 1 {
        let mut v = Vec::with_capacity(cap + 1 + cap / 2);
        v.extend(data);
        v
    } else {
        data
    };
    let rb = match ctor {
        0 => Bounded::from_raw_parts(start, prefill, data),
        1 => Bounded::from(data),
        2 => Bounded::from_full(data),
        _ => data.into_iter().collect(),
    };
    let mut b = Some(sig.buffered(rb));
    let mut done = 0usize;
    loop {
        let op = src.next_op(|r| gen_op(r, cap, done, steps, drain_at_end, &w));
        let Some(op) = op else { break };
        done += 1;
        obs.tick(op.k);
        obs.note(op.a as u64);
        if !m.buf.is_empty() {
            obs.inflight();
        }
        let bs = b.as_mut().unwrap();
        // exhaustion probe before every operation
        check_eq!(obs, bs.is_exhausted(), m.exhausted(), "buffered.exhausted", "is_exhausted() before {}", OPS[op.k as usize].name);
        if m.exhausted() {
            obs.probe(P_EXHAUSTED_SEEN);
        }
        match op.k {
            O_NEXT => {
                if m.buf.is_empty() {
                    m.refill(obs);
                    obs.probe(P_REFILL_BY_NEXT);
                }
                let want = m.buf.pop_front().unwrap();
                let got = bs.next();
                obs.note(got.bits());
                check_eq!(obs, got, want, "buffered.frame", "next()");
            }
            O_BATCH => {
                let k = op.a.clamp(0, 64) as usize;
                if m.buf.is_empty() {
                    m.refill(obs);
                    obs.probe(P_REFILL_BY_BATCH);
                }
                let avail = m.buf.len();
                let mut want = Vec::new();
                for _ in 0..k.min(avail) {
                    want.push(m.buf.pop_front().unwrap());
                }
                if k == 0 {
                    obs.fault(F_EMPTY_BATCH);
                } else if k < avail {
                    obs.fault(F_PARTIAL_BATCH);
                }
                {
                    let it = bs.next_frames();
                    let (lo, hi) = it.size_hint();
                    check!(
                        obs,
                        lo <= avail && hi.map(|h| h >= avail).unwrap_or(true),
                        "buffered.size-hint",
                        "next_frames().size_hint() = ({}, {:?}) with {} frames buffered",
                        lo,
                        hi,
                        avail
                    );
                }
                // half of the batches are leaked after use (`mem::forget`): what a batch handed out is
                // consumed the moment it is yielded, whether or not its destructor ever runs
                let got: Vec<F> = if k % 2 == 1 {
                    let mut it = bs.next_frames();
                    let mut v = Vec::new();
                    for _ in 0..k {
                        match it.next() {
                            Some(f) => v.push(f),
                            None => break,
                        }
                    }
                    std::mem::forget(it);
                    v
                } else {
                    bs.next_frames().take(k).collect()
                };
                for g in &got {
                    obs.note(g.bits());
                }
                check_eq!(obs, got, want, "buffered.batch", "next_frames().take({}) with {} buffered", k, avail);
            }
            O_BATCH_METHOD => {
                // provided Iterator methods of BufferedFrames == their default definitions over pop()
                let variant = op.a.rem_euclid(crate::tree::N_ITER_VARIANTS);
                let k = op.b.clamp(0, 200) as usize;
                if m.buf.is_empty() {
                    m.refill(obs);
                    obs.probe(P_REFILL_BY_BATCH);
                }
                let items: Vec<F> = m.buf.iter().copied().collect();
                let want = crate::tree::model_iter_variant(&items, variant, k);
                // which of the buffered frames were consumed: everything the default method pulls
                let consumed = match variant {
                    0 | 2 | 3 | 4 => items.len(),
                    1 => items.len(), // nth(k) then the rest is collected
                    _ => items.len(),
                };
                for _ in 0..consumed {
                    m.buf.pop_front();
                }
                let hint = bs.next_frames().size_hint();
                let _ = hint;
                let got = crate::tree::apply_iter_variant(bs.next_frames(), variant, k);
                check_eq!(obs, got, want, "buffered.batch-method", "next_frames() through Iterator method variant {} (k = {}) with {} buffered", variant, k, items.len());
            }
            O_FFWD => {
                let n = op.a.clamp(1, 80_000) as u64;
                for _ in 0..n {
                    if m.buf.is_empty() {
                        m.refill(obs);
                    }
                    let want = m.buf.pop_front().unwrap();
                    let got = bs.next();
                    check_eq!(obs, got, want, "buffered.frame", "next() during a fast-forward of {} frames", n);
                }
                obs.note(n);
            }
            O_CLONE_SWAP => {
                // snapshot/restore: continue on a clone (source position and buffered frames included)
                obs.fault(F_SNAPSHOT);
                let c = bs.clone();
                b = Some(c);
            }
            O_REBUILD => {
                let (s, rb) = b.take().unwrap().into_parts();
                if !rb.is_empty() {
                    obs.fault(F_REBUILD_NONEMPTY);
                }
                check_eq!(obs, rb.len(), m.buf.len(), "buffered.parts-len", "ring buffer length returned by into_parts()");
                b = Some(s.buffered(rb));
            }
            O_DRAIN => {
                // consume to exhaustion: source frames, then fewer than one buffer of padding
                let taken = b.take().unwrap();
                let mut got = Vec::new();
                let mut it = taken.until_exhausted();
                for _ in 0..400_000 {
                    match it.next() {
                        Some(f) => got.push(f),
                        None => break,
                    }
                }
                let mut want = Vec::new();
                let e = end.unwrap();
                // padding frames already sitting in the buffer are at its tail
                let pad_in_buf = (m.buf.len() as u64).min(m.pulled.saturating_sub(e));
                let real_left = m.buf.len() as u64 - pad_in_buf + e.saturating_sub(m.pulled);
                while !m.exhausted() {
                    if m.buf.is_empty() {
                        m.refill(obs);
                    }
                    want.push(m.buf.pop_front().unwrap());
                }
                check_eq!(obs, got.len(), want.len(), "buffered.drain-count", "frames yielded by until_exhausted()");
                check_eq!(obs, got, want, "buffered.drain", "until_exhausted() contents");
                let padding = want.len() as u64 - real_left.min(want.len() as u64);
                check!(
                    obs,
                    padding < cap as u64 || m.overrun_refills > 0,
                    "buffered.drain-padding",
                    "draining yielded {} equilibrium padding frames with capacity {}",
                    padding,
                    cap
                );
                if padding > 0 {
                    obs.probe(P_DRAIN_PADDING);
                }
                check_eq!(obs, it.next(), None, "buffered.drain-stays-ended", "until_exhausted() after its end");
                check_eq!(obs, pulls.get(), m.pulled, "buffered.source-pulls", "source pulls after drain");
                return Ok(());
            }
            _ => {}
        }
        check_eq!(obs, pulls.get(), m.pulled, "buffered.source-pulls", "source pulls (one buffer per refill, none otherwise)");
        let abs = (cap as u64) << 16 | (m.buf.len() as u64) << 8 | (m.src_exhausted() as u64) << 1 | (m.exhausted() as u64);
        obs.state(abs, op.k);
    }
    if let Some(bs) = b.as_ref() {
        check_eq!(obs, bs.is_exhausted(), m.exhausted(), "buffered.exhausted", "is_exhausted() at end of run");
    }
    Ok(())
}

fn with_source<F: TagFrame>(src: &mut Source, obs: &mut Observer) -> Result<(), Violation> {
    let kind = src.cfg("source", 0, 1, |r| r.range(0, 1));
    let end = src.cfg("src_len", -1, 5000, |r| match r.below(12) {
        0 | 1 => -1,
        2 | 3 => r.range(0, 3),
        4 => r.range(100, 5000),
        _ => r.range(0, 60),
    });
    if kind == 0 || end < 0 {
        let end = if end < 0 { None } else { Some(end as u64) };
        let (sig, pulls) = ProbeSignal::<F>::new(9, end);
        drive(sig, pulls, end, src, obs)
    } else {
        // the real from_iter (one-frame look-ahead) over an iterator probe
        let (it, _polls, _nones) = ProbeIter::new(9, end as u64, false, F::tag as fn(u32, u64) -> F);
        let (sig, pulls) = Counted::new(signal::from_iter(it));
        drive(sig, pulls, Some(end as u64), src, obs)
    }
}

impl Scenario for BufferedScenario {
    fn name(&self) -> &'static str {
        "buffered"
    }
    fn property(&self) -> &'static str {
        "C14"
    }
    fn ops(&self) -> &'static [OpSpec] {
        &OPS
    }
    fn faults(&self) -> &'static [&'static str] {
        &[
            "pre-filled ring buffer",
            "recovered ring buffer start != 0",
            "source ends inside a refill",
            "source ends exactly at a refill boundary",
            "partial batch (next_frames iterator dropped early)",
            "empty batch (next_frames taken 0)",
            "into_parts + rebuild with frames buffered",
            "empty source",
            "snapshot: clone taken with frames buffered, the clone is used from then on",
        ]
    }
    fn probes(&self) -> &'static [&'static str] {
        &[
            "capacity == 1",
            "refill triggered by next_frames()",
            "refill triggered by next()",
            "operation on an exhausted buffered signal",
            "drain produced equilibrium padding",
        ]
    }
    fn rule(&self) -> &'static str {
        "case = (frame type, source kind ProbeSignal / real from_iter over ProbeIter, source length, capacity 1..8, ring start, \
         pre-fill, weights, seeded next/next_frames(k)/rebuild schedule, optional final drain); non-trivial = at least one \
         fault kind fired and at least one operation ran with frames buffered; distinct = hash of (ops, frames observed)"
    }
    fn real(&self) -> &'static [&'static str] {
        &["dasp_signal::{Buffered, BufferedFrames, UntilExhausted, from_iter/FromIterator}", "dasp_ring_buffer::Bounded"]
    }
    fn stubs(&self) -> &'static [&'static str] {
        &["ProbeSignal / ProbeIter sources, Counted pull counter", "stream = prefill ++ source log model"]
    }
    fn assumptions(&self) -> &'static [&'static str] {
        &["drain-to-exhaustion is only run for finite sources"]
    }
    fn runs(&self, tier: &str) -> u64 {
        if tier == "quick" {
            800_000
        } else {
            20_000_000
        }
    }
    fn run(&self, src: &mut Source, obs: &mut Observer) -> Result<(), Violation> {
        let fmt = src.cfg("frame", 0, 2, |r| r.range(0, 2));
        obs.note(fmt as u64);
        match fmt {
            0 => with_source::<f64>(src, obs),
            1 => with_source::<[f32; 2]>(src, obs),
            _ => with_source::<i16>(src, obs),
        }
    }
}
