//! Adaptor trees over probe leaves: the shared machinery of the `adaptors` (C04) and `eof` (C05)
//! scenarios.  A case's operation list first *builds* a tree (postfix program over a stack), then
//! pulls from it; `rewrap` drops the tree (the leaves, borrowed with `by_ref`, keep their
//! position), lets the owner pull from leaves directly, and builds a new tree over the same leaves.

use crate::adframe::AdFrame;
use crate::probe::{Counted, Dyn, ProbeIter, ProbeSignal, Pulls};
use dasp_frame::Frame;
use dasp_signal::{self as signal, Signal};
use simcore::{check, check_eq, Observer, Op, OpSpec, Rng, Source, Violation};
use std::cell::Cell;
use std::rc::Rc;

pub const B_LEAF: u8 = 0;
pub const B_MAP: u8 = 1;
pub const B_ZIPMAP: u8 = 2;
pub const B_ADD: u8 = 3;
pub const B_MUL: u8 = 4;
pub const B_SCALE: u8 = 5;
pub const B_OFFSET: u8 = 6;
pub const B_SCALE_PC: u8 = 7;
pub const B_OFFSET_PC: u8 = 8;
pub const B_CLIP: u8 = 9;
pub const B_INSPECT: u8 = 10;
pub const B_DELAY: u8 = 11;
pub const R_PULL: u8 = 12;
pub const R_EXHAUSTED: u8 = 13;
pub const R_REWRAP: u8 = 14;
pub const R_OWNER_PULL: u8 = 15;
pub const R_DRAIN: u8 = 16;
pub const R_TAKE: u8 = 17;
pub const R_INTERLEAVED: u8 = 18;
pub const R_LIFT: u8 = 19;
pub const R_STATIC: u8 = 20;

pub static OPS: [OpSpec; 21] = [
    OpSpec { name: "b_leaf", shrink: 1 },
    OpSpec { name: "b_map", shrink: 0 },
    OpSpec { name: "b_zip_map", shrink: 0 },
    OpSpec { name: "b_add_amp", shrink: 1 },
    OpSpec { name: "b_mul_amp", shrink: 1 },
    OpSpec { name: "b_scale_amp", shrink: 0 },
    OpSpec { name: "b_offset_amp", shrink: 0 },
    OpSpec { name: "b_scale_amp_per_channel", shrink: 1 },
    OpSpec { name: "b_offset_amp_per_channel", shrink: 1 },
    OpSpec { name: "b_clip_amp", shrink: 0 },
    OpSpec { name: "b_inspect", shrink: 0 },
    OpSpec { name: "b_delay", shrink: 1 },
    OpSpec { name: "pull", shrink: 0 },
    OpSpec { name: "is_exhausted", shrink: 0 },
    OpSpec { name: "rewrap", shrink: 0 },
    OpSpec { name: "owner_pull", shrink: 7 },
    OpSpec { name: "drain_until_exhausted", shrink: 1 },
    OpSpec { name: "take", shrink: 1 },
    OpSpec { name: "interleaved_drain", shrink: 1 },
    OpSpec { name: "lift", shrink: 7 },
    OpSpec { name: "static_stack", shrink: 0 },
];

// fault / probe indices shared by both scenarios
pub const F_OWNER_PULL: usize = 0;
pub const F_REWRAP: usize = 1;
pub const F_DELAY_BOUNDARY: usize = 2;
pub const F_EOF: usize = 3;
pub const F_TORN_LAST_FRAME: usize = 4;
pub const F_RESUME_AFTER_EOF: usize = 5;
pub const F_EOF_IN_DELAY_SILENCE: usize = 6;
pub const F_OVERRUN: usize = 7;
pub const F_EMPTY_SOURCE: usize = 8;
pub const F_UNEQUAL_LENGTHS: usize = 9;

pub static FAULTS: [&str; 10] = [
    "owner pulls from a by_ref leaf between two adaptor lifetimes",
    "rewrap: adaptor tree dropped mid-stream, new tree over the same borrowed leaves",
    "pull / owner pull exactly when a delay's silence runs out",
    "end of stream reached on a leaf",
    "torn last frame (interleaved sample count not a multiple of the channel count)",
    "iterator yields Some again after its first None (non-fused)",
    "leaf already exhausted while a delay above it is still silent",
    "next() called after exhaustion (overrun)",
    "zero-length source",
    "two finite inputs of different lengths joined",
];

pub const P_DEPTH5: usize = 0;
pub const P_FOUR_LEAVES: usize = 1;
pub const P_INTEGER_FORMAT: usize = 2;
pub const P_EXHAUSTED_BY_SECOND_INPUT: usize = 3;
pub const P_DRAIN_ZERO: usize = 4;
pub const P_TAKE: usize = 5;
pub const P_INTERLEAVED: usize = 6;
pub const P_LIFT: usize = 7;
pub const P_WIDE_FRAME: usize = 8;
pub const P_STATIC_STACK: usize = 9;
pub const P_ITER_METHOD: usize = 10;

pub static PROBES: [&str; 11] = [
    "tree depth >= 5",
    "four primary leaves in one tree",
    "integer sample format",
    "tree exhausted through the second input of a combining adaptor only",
    "until_exhausted yields zero frames",
    "take(n) checked",
    "interleaved drain checked",
    "lift checked",
    "frame with >= 8 channels",
    "statically typed adaptor stack checked",
    "provided Iterator method (nth / skip / count / last / step_by) checked",
];

// ---------------------------------------------------------------------------------------------
// leaves
// ---------------------------------------------------------------------------------------------

enum LeafSig<F: AdFrame> {
    Probe(ProbeSignal<F>),
    Iter(Counted<signal::FromIterator<ProbeIter<F>>>),
    Inter(Counted<signal::FromInterleavedSamplesIterator<ProbeIter<F::Sample>, F>>),
}

impl<F: AdFrame> Signal for LeafSig<F> {
    type Frame = F;
    fn next(&mut self) -> F {
        match self {
            LeafSig::Probe(s) => s.next(),
            LeafSig::Iter(s) => s.next(),
            LeafSig::Inter(s) => s.next(),
        }
    }
    fn is_exhausted(&self) -> bool {
        match self {
            LeafSig::Probe(s) => s.is_exhausted(),
            LeafSig::Iter(s) => s.is_exhausted(),
            LeafSig::Inter(s) => s.is_exhausted(),
        }
    }
}

fn inter_sample<F: AdFrame>(id: u32, j: u64) -> F::Sample {
    let n = F::CHANNELS as u64;
    *F::leaf(id, j / n).channel((j % n) as usize).unwrap()
}

/// Model of one leaf: complete frames it holds (None = endless) and how often it was pulled.
#[derive(Clone, Copy)]
struct LeafModel {
    id: u32,
    frames: Option<u64>,
    cur: u64,
}

impl LeafModel {
    fn exhausted(&self) -> bool {
        matches!(self.frames, Some(n) if self.cur >= n)
    }
}

struct Leaves<F: AdFrame> {
    main: Vec<LeafSig<F>>,
    main_pulls: Vec<Pulls>,
    main_m: Vec<LeafModel>,
    sgn: Vec<ProbeSignal<F::SF>>,
    sgn_pulls: Vec<Pulls>,
    sgn_m: Vec<LeafModel>,
    flt: Vec<ProbeSignal<F::FF>>,
    flt_pulls: Vec<Pulls>,
    flt_m: Vec<LeafModel>,
}

// ---------------------------------------------------------------------------------------------
// model tree
// ---------------------------------------------------------------------------------------------

#[derive(Clone, Debug)]
enum Node {
    Leaf(usize),
    Map(Box<Node>, usize),
    ZipMap(Box<Node>, Box<Node>, usize),
    Add(Box<Node>, usize),
    Mul(Box<Node>, usize),
    Scale(Box<Node>, i64),
    Offset(Box<Node>, i64),
    ScalePc(Box<Node>, i64),
    OffsetPc(Box<Node>, i64),
    Clip(Box<Node>, i64),
    Inspect(Box<Node>, usize),
    Delay(Box<Node>, u64),
}

impl Node {
    fn depth(&self) -> usize {
        match self {
            Node::Leaf(_) => 0,
            Node::ZipMap(a, b, _) => 1 + a.depth().max(b.depth()),
            Node::Map(a, _)
            | Node::Add(a, _)
            | Node::Mul(a, _)
            | Node::Scale(a, _)
            | Node::Offset(a, _)
            | Node::ScalePc(a, _)
            | Node::OffsetPc(a, _)
            | Node::Clip(a, _)
            | Node::Inspect(a, _)
            | Node::Delay(a, _) => 1 + a.depth(),
        }
    }
    fn leaves(&self) -> usize {
        match self {
            Node::Leaf(_) => 1,
            Node::ZipMap(a, b, _) => a.leaves() + b.leaves(),
            Node::Map(a, _)
            | Node::Add(a, _)
            | Node::Mul(a, _)
            | Node::Scale(a, _)
            | Node::Offset(a, _)
            | Node::ScalePc(a, _)
            | Node::OffsetPc(a, _)
            | Node::Clip(a, _)
            | Node::Inspect(a, _)
            | Node::Delay(a, _) => a.leaves(),
        }
    }
}

/// Call accounting of user closures (map / zip_map / inspect).
#[derive(Clone)]
struct Closure<F: Copy> {
    calls: Rc<Cell<u64>>,
    last: Rc<Cell<Option<F>>>,
}
impl<F: Copy> Closure<F> {
    fn new() -> Self {
        Closure {
            calls: Rc::new(Cell::new(0)),
            last: Rc::new(Cell::new(None)),
        }
    }
    fn hit(&self, f: F) {
        self.calls.set(self.calls.get() + 1);
        self.last.set(Some(f));
    }
}

struct ModelCalls<F: Copy> {
    calls: Vec<u64>,
    last: Vec<Option<F>>,
}

fn eval<F: AdFrame>(n: &mut Node, lv: &mut Leaves<F>, mc: &mut ModelCalls<F>, obs: &mut Observer) -> F {
    match n {
        Node::Leaf(i) => {
            let m = &mut lv.main_m[*i];
            let f = match m.frames {
                Some(e) if m.cur >= e => {
                    obs.fault(F_OVERRUN);
                    F::eq_ref()
                }
                _ => F::leaf(m.id, m.cur),
            };
            m.cur += 1;
            if m.frames == Some(m.cur) {
                obs.fault(F_EOF);
            }
            f
        }
        Node::Map(a, c) => {
            let f = eval(a, lv, mc, obs).reverse();
            mc.calls[*c] += 1;
            f
        }
        Node::ZipMap(a, b, c) => {
            let x = eval(a, lv, mc, obs);
            let y = eval(b, lv, mc, obs);
            mc.calls[*c] += 1;
            x.select(y)
        }
        Node::Add(a, j) => {
            let x = eval(a, lv, mc, obs);
            let m = &mut lv.sgn_m[*j];
            let y = match m.frames {
                Some(e) if m.cur >= e => F::seq_ref(),
                _ => F::sleaf(m.id, m.cur),
            };
            m.cur += 1;
            x.add_ref(y)
        }
        Node::Mul(a, j) => {
            let x = eval(a, lv, mc, obs);
            let m = &mut lv.flt_m[*j];
            let y = match m.frames {
                Some(e) if m.cur >= e => F::feq_ref(),
                _ => F::fleaf(m.id, m.cur),
            };
            m.cur += 1;
            x.mul_ref(y)
        }
        Node::Scale(a, q) => eval(a, lv, mc, obs).scale_ref(F::fparam(*q)),
        Node::Offset(a, q) => eval(a, lv, mc, obs).offset_ref(F::sparam(*q)),
        Node::ScalePc(a, q) => eval(a, lv, mc, obs).mul_ref(F::fpc(*q)),
        Node::OffsetPc(a, q) => eval(a, lv, mc, obs).add_ref(F::spc(*q)),
        Node::Clip(a, q) => eval(a, lv, mc, obs).clip_ref(F::sparam(*q)),
        Node::Inspect(a, c) => {
            let f = eval(a, lv, mc, obs);
            mc.calls[*c] += 1;
            mc.last[*c] = Some(f);
            f
        }
        Node::Delay(a, k) => {
            if *k > 0 {
                *k -= 1;
                if *k == 0 {
                    obs.fault(F_DELAY_BOUNDARY);
                }
                F::eq_ref()
            } else {
                eval(a, lv, mc, obs)
            }
        }
    }
}

fn exhausted<F: AdFrame>(n: &Node, lv: &Leaves<F>) -> bool {
    match n {
        Node::Leaf(i) => lv.main_m[*i].exhausted(),
        Node::ZipMap(a, b, _) => exhausted(a, lv) || exhausted(b, lv),
        Node::Add(a, j) => exhausted(a, lv) || lv.sgn_m[*j].exhausted(),
        Node::Mul(a, j) => exhausted(a, lv) || lv.flt_m[*j].exhausted(),
        Node::Delay(a, k) => *k == 0 && exhausted(a, lv),
        Node::Map(a, _)
        | Node::Scale(a, _)
        | Node::Offset(a, _)
        | Node::ScalePc(a, _)
        | Node::OffsetPc(a, _)
        | Node::Clip(a, _)
        | Node::Inspect(a, _) => exhausted(a, lv),
    }
}

/// Closed form, independent of `eval`: how many frames until the tree reports exhaustion
/// (`None` = never) = min over finite inputs of (frames left + delays still to run above it).
fn remaining<F: AdFrame>(n: &Node, lv: &Leaves<F>) -> Option<u64> {
    fn left(m: &LeafModel) -> Option<u64> {
        m.frames.map(|f| f.saturating_sub(m.cur))
    }
    fn min_opt(a: Option<u64>, b: Option<u64>) -> Option<u64> {
        match (a, b) {
            (Some(x), Some(y)) => Some(x.min(y)),
            (x, None) => x,
            (None, y) => y,
        }
    }
    match n {
        Node::Leaf(i) => left(&lv.main_m[*i]),
        Node::ZipMap(a, b, _) => min_opt(remaining(a, lv), remaining(b, lv)),
        Node::Add(a, j) => min_opt(remaining(a, lv), left(&lv.sgn_m[*j])),
        Node::Mul(a, j) => min_opt(remaining(a, lv), left(&lv.flt_m[*j])),
        Node::Delay(a, k) => remaining(a, lv).map(|r| r + *k),
        Node::Map(a, _)
        | Node::Scale(a, _)
        | Node::Offset(a, _)
        | Node::ScalePc(a, _)
        | Node::OffsetPc(a, _)
        | Node::Clip(a, _)
        | Node::Inspect(a, _) => remaining(a, lv),
    }
}

// ---------------------------------------------------------------------------------------------
// real tree
// ---------------------------------------------------------------------------------------------

struct Avail<'a, F: AdFrame> {
    main: Vec<Option<&'a mut LeafSig<F>>>,
    sgn: Vec<Option<&'a mut ProbeSignal<F::SF>>>,
    flt: Vec<Option<&'a mut ProbeSignal<F::FF>>>,
}

fn realize<'a, F: AdFrame>(n: &Node, av: &mut Avail<'a, F>, cl: &[Closure<F>]) -> Dyn<'a, F> {
    match n {
        // `&mut S` is itself a Signal (by_ref): the leaf stays owned by the harness
        Node::Leaf(i) => Dyn(Box::new(av.main[*i].take().expect("leaf used twice"))),
        Node::Map(a, c) => {
            let c = cl[*c].clone();
            Dyn(Box::new(realize(a, av, cl).map(move |f: F| {
                c.hit(f);
                f.reverse()
            })))
        }
        Node::ZipMap(a, b, c) => {
            let c = cl[*c].clone();
            let x = realize(a, av, cl);
            let y = realize(b, av, cl);
            Dyn(Box::new(x.zip_map(y, move |p: F, q: F| {
                c.hit(p);
                p.select(q)
            })))
        }
        Node::Add(a, j) => {
            let x = realize(a, av, cl);
            let y = av.sgn[*j].take().expect("signed leaf used twice");
            Dyn(Box::new(x.add_amp(y)))
        }
        Node::Mul(a, j) => {
            let x = realize(a, av, cl);
            let y = av.flt[*j].take().expect("gain leaf used twice");
            Dyn(Box::new(x.mul_amp(y)))
        }
        Node::Scale(a, q) => Dyn(Box::new(realize(a, av, cl).scale_amp(F::fparam(*q)))),
        Node::Offset(a, q) => Dyn(Box::new(realize(a, av, cl).offset_amp(F::sparam(*q)))),
        Node::ScalePc(a, q) => Dyn(Box::new(realize(a, av, cl).scale_amp_per_channel(F::fpc(*q)))),
        Node::OffsetPc(a, q) => Dyn(Box::new(realize(a, av, cl).offset_amp_per_channel(F::spc(*q)))),
        Node::Clip(a, q) => Dyn(Box::new(realize(a, av, cl).clip_amp(F::sparam(*q)))),
        Node::Inspect(a, c) => {
            let c = cl[*c].clone();
            Dyn(Box::new(realize(a, av, cl).inspect(move |f: &F| c.hit(*f))))
        }
        Node::Delay(a, k) => Dyn(Box::new(realize(a, av, cl).delay(*k as usize))),
    }
}

// ---------------------------------------------------------------------------------------------
// scenario driver
// ---------------------------------------------------------------------------------------------

#[derive(Clone, Copy, PartialEq)]
pub enum Flavor {
    /// C04: mostly endless probe leaves, pull accounting, rewrap / owner pulls, take.
    Adaptors,
    /// C05: finite leaves of every kind, exhaustion probes, drains, overrun.
    Eof,
}

struct Builder {
    stack: Vec<(Node, f64)>,
    used_main: Vec<bool>,
    used_sgn: Vec<bool>,
    used_flt: Vec<bool>,
    n_closures: usize,
    leaf_amp: f64,
    /// float formats have no full scale: amplitudes and thresholds beyond 1.0 are legitimate
    is_float: bool,
}

impl Builder {
    fn new(nm: usize, ns: usize, nf: usize, leaf_amp: f64, is_float: bool) -> Self {
        Builder {
            is_float,
            stack: Vec::new(),
            used_main: vec![false; nm],
            used_sgn: vec![false; ns],
            used_flt: vec![false; nf],
            n_closures: 0,
            leaf_amp,
        }
    }

    /// Apply one build operation if it is legal (operands present, leaves unused, amplitude bound
    /// stays inside the format).  Returns false when skipped.
    fn apply(&mut self, op: Op) -> bool {
        let arg = op.a;
        match op.k {
            B_LEAF => {
                let i = arg.max(0) as usize;
                if i >= self.used_main.len() || self.used_main[i] || self.stack.len() >= 4 {
                    return false;
                }
                self.used_main[i] = true;
                self.stack.push((Node::Leaf(i), self.leaf_amp));
                true
            }
            B_ZIPMAP => {
                if self.stack.len() < 2 {
                    return false;
                }
                let (b, ab) = self.stack.pop().unwrap();
                let (a, aa) = self.stack.pop().unwrap();
                let c = self.n_closures;
                self.n_closures += 1;
                self.stack.push((Node::ZipMap(Box::new(a), Box::new(b), c), aa.max(ab)));
                true
            }
            _ => {
                let Some((top, amp)) = self.stack.last().cloned() else {
                    return false;
                };
                if top.depth() >= 6 {
                    return false;
                }
                let inner = Box::new(top);
                let (node, namp) = match op.k {
                    B_MAP => {
                        let c = self.n_closures;
                        self.n_closures += 1;
                        (Node::Map(inner, c), amp)
                    }
                    B_INSPECT => {
                        let c = self.n_closures;
                        self.n_closures += 1;
                        (Node::Inspect(inner, c), amp)
                    }
                    B_ADD => {
                        let j = arg.max(0) as usize;
                        if j >= self.used_sgn.len() || self.used_sgn[j] {
                            return false;
                        }
                        self.used_sgn[j] = true;
                        (Node::Add(inner, j), amp + self.leaf_amp)
                    }
                    B_MUL => {
                        let j = arg.max(0) as usize;
                        if j >= self.used_flt.len() || self.used_flt[j] {
                            return false;
                        }
                        self.used_flt[j] = true;
                        (Node::Mul(inner, j), amp * 2.0)
                    }
                    B_SCALE => {
                        let q = arg.clamp(-16, 16);
                        (Node::Scale(inner, q), amp * (q.abs() as f64 / 8.0))
                    }
                    B_OFFSET => {
                        let q = if self.is_float { arg.clamp(-4096, 4096) } else { arg.clamp(-512, 512) };
                        (Node::Offset(inner, q), amp + q.abs() as f64 / 1024.0)
                    }
                    B_SCALE_PC => (Node::ScalePc(inner, arg.clamp(0, 1000)), amp),
                    B_OFFSET_PC => (Node::OffsetPc(inner, arg.clamp(0, 1000)), amp + 0.126),
                    B_CLIP => {
                        let q = if self.is_float { arg.clamp(0, 8192) } else { arg.clamp(0, 1000) };
                        (Node::Clip(inner, q), amp.min(q as f64 / 1024.0 + 1e-9))
                    }
                    B_DELAY => (Node::Delay(inner, arg.clamp(0, 300) as u64), amp),
                    _ => return false,
                };
                if namp > if self.is_float { 64.0 } else { 0.9 } {
                    // un-use leaves taken by a rejected op
                    match node {
                        Node::Add(_, j) => self.used_sgn[j] = false,
                        Node::Mul(_, j) => self.used_flt[j] = false,
                        _ => {}
                    }
                    return false;
                }
                self.stack.pop();
                self.stack.push((node, namp));
                true
            }
        }
    }

    /// One tree: join whatever is left on the stack with zip_map; an empty program is leaf 0.
    fn finish(mut self) -> (Node, usize) {
        if self.stack.is_empty() {
            let i = self.used_main.iter().position(|u| !u).unwrap_or(0);
            self.stack.push((Node::Leaf(i), self.leaf_amp));
        }
        while self.stack.len() > 1 {
            let (b, _) = self.stack.pop().unwrap();
            let (a, _) = self.stack.pop().unwrap();
            let c = self.n_closures;
            self.n_closures += 1;
            self.stack.push((Node::ZipMap(Box::new(a), Box::new(b), c), 0.0));
        }
        (self.stack.pop().unwrap().0, self.n_closures)
    }
}

struct Gen {
    flavor: Flavor,
    steps: usize,
    done: usize,
    build_left: i64,
    allow_rewrap: bool,
    nm: usize,
    ns: usize,
    nf: usize,
}

fn gen_build(r: &mut Rng, g: &mut Gen) -> Op {
    let w: [u32; 12] = [6, 2, 3, 2, 2, 3, 3, 2, 2, 2, 2, if g.flavor == Flavor::Eof { 4 } else { 2 }];
    let k = r.weighted(&w) as u8;
    match k {
        B_LEAF => Op::ka(k, r.range(0, g.nm as i64 - 1)),
        B_ADD => Op::ka(k, r.range(0, g.ns.max(1) as i64 - 1)),
        B_MUL => Op::ka(k, r.range(0, g.nf.max(1) as i64 - 1)),
        B_SCALE => Op::ka(k, *r.pick(&[-16, -8, -4, -3, -1, 0, 1, 2, 3, 4, 8, 12, 16, 16, 16])),
        B_OFFSET => Op::ka(k, if r.chance(1, 4) { r.range(-3000, 3000) } else { r.range(-300, 300) }),
        B_SCALE_PC | B_OFFSET_PC => Op::ka(k, r.range(0, 1000)),
        B_CLIP => Op::ka(k, *r.pick(&[0, 1, 4, 16, 64, 200, 512, 900, 1024, 1500, 2048, 8192])),
        B_DELAY => Op::ka(k, if r.chance(1, 12) { *r.pick(&[16i64, 63, 64, 65, 100, 255, 256]) } else { r.range(0, 6) }),
        _ => Op::k(k),
    }
}

/// One full run over frame type `F`.
pub fn run_tree<F: AdFrame>(flavor: Flavor, src: &mut Source, obs: &mut Observer) -> Result<(), Violation> {
    let nm = src.cfg("n_leaves", 1, 4, |r| r.range(1, 4)) as usize;
    let ns = 2usize;
    let nf = 2usize;
    let shift = src.cfg("leaf_amp_shift", 2, 6, |r| r.range(2, 6)) as u32;
    let leaf_amp = 1.0 / (1u64 << shift) as f64;
    static KIND: [&str; 4] = ["leaf0_kind", "leaf1_kind", "leaf2_kind", "leaf3_kind"];
    static LEN: [&str; 4] = ["leaf0_len", "leaf1_len", "leaf2_len", "leaf3_len"];
    static SLEN: [&str; 2] = ["sleaf0_len", "sleaf1_len"];
    static FLEN: [&str; 2] = ["fleaf0_len", "fleaf1_len"];
    let ch = F::CHANNELS as i64;
    if ch >= 8 {
        obs.probe(P_WIDE_FRAME);
    }
    let mut lv = Leaves::<F> {
        main: Vec::new(),
        main_pulls: Vec::new(),
        main_m: Vec::new(),
        sgn: Vec::new(),
        sgn_pulls: Vec::new(),
        sgn_m: Vec::new(),
        flt: Vec::new(),
        flt_pulls: Vec::new(),
        flt_m: Vec::new(),
    };
    let draw_len = move |r: &mut Rng| -> i64 {
        match flavor {
            Flavor::Adaptors => {
                if r.chance(3, 4) {
                    -1
                } else {
                    r.range(0, 40)
                }
            }
            Flavor::Eof => match r.below(8) {
                0 => 0,
                1 => 1,
                2 => -1,
                _ => r.range(0, 24),
            },
        }
    };
    let mut finite_lens: Vec<u64> = Vec::new();
    for i in 0..nm {
        // kind: 0 probe signal, 1 from_iter, 2 from_iter non-fused, 3 interleaved, 4 interleaved non-fused
        let kind = src.cfg(KIND[i], 0, 4, |r| match flavor {
            Flavor::Adaptors => {
                if r.chance(4, 5) {
                    0
                } else {
                    r.range(1, 4)
                }
            }
            Flavor::Eof => r.range(0, 4),
        });
        // length in frames (kind 0..2) or in samples (kind 3..4); -1 = endless (probe only)
        let len = src.cfg(LEN[i], -1, 24 * 33, |r| {
            let l = draw_len(r);
            if kind >= 3 && l >= 0 {
                l * ch + if r.chance(1, 2) { r.range(0, ch - 1) } else { 0 }
            } else {
                l
            }
        });
        let id = i as u32 + 16 * shift;
        let (sig, pulls, frames) = match kind {
            0 => {
                let end = if len < 0 { None } else { Some(len as u64) };
                let (s, p) = ProbeSignal::with(id, end, F::leaf as fn(u32, u64) -> F);
                (LeafSig::Probe(s), p, end)
            }
            1 | 2 => {
                let n = len.max(0) as u64;
                let (it, _, _) = ProbeIter::new(id, n, kind == 2, F::leaf as fn(u32, u64) -> F);
                if kind == 2 {
                    obs.fault(F_RESUME_AFTER_EOF);
                }
                let (c, p) = Counted::new(signal::from_iter(it));
                (LeafSig::Iter(c), p, Some(n))
            }
            _ => {
                let n = len.max(0) as u64;
                let (it, _, _) = ProbeIter::new(id, n, kind == 4, inter_sample::<F> as fn(u32, u64) -> F::Sample);
                if kind == 4 {
                    obs.fault(F_RESUME_AFTER_EOF);
                }
                if n % ch as u64 != 0 {
                    obs.fault(F_TORN_LAST_FRAME);
                }
                let (c, p) = Counted::new(signal::from_interleaved_samples_iter::<_, F>(it));
                (LeafSig::Inter(c), p, Some(n / ch as u64))
            }
        };
        if frames == Some(0) {
            obs.fault(F_EMPTY_SOURCE);
        }
        if let Some(f) = frames {
            finite_lens.push(f);
        }
        lv.main.push(sig);
        lv.main_pulls.push(pulls);
        lv.main_m.push(LeafModel { id, frames, cur: 0 });
    }
    for j in 0..ns {
        let len = src.cfg(SLEN[j], -1, 40, draw_len);
        let end = if len < 0 { None } else { Some(len as u64) };
        let id = 8 + j as u32 + 16 * shift;
        let (s, p) = ProbeSignal::with(id, end, F::sleaf as fn(u32, u64) -> F::SF);
        lv.sgn.push(s);
        lv.sgn_pulls.push(p);
        lv.sgn_m.push(LeafModel { id, frames: end, cur: 0 });
    }
    for j in 0..nf {
        let len = src.cfg(FLEN[j], -1, 40, draw_len);
        let end = if len < 0 { None } else { Some(len as u64) };
        let id = 12 + j as u32;
        let (s, p) = ProbeSignal::with(id, end, F::fleaf as fn(u32, u64) -> F::FF);
        lv.flt.push(s);
        lv.flt_pulls.push(p);
        lv.flt_m.push(LeafModel { id, frames: end, cur: 0 });
    }
    finite_lens.sort();
    finite_lens.dedup();
    if finite_lens.len() >= 2 {
        obs.fault(F_UNEQUAL_LENGTHS);
    }
    if F::NAME.contains('i') || F::NAME.contains('u') {
        obs.probe(P_INTEGER_FORMAT);
    }
    let mut g = Gen {
        flavor,
        steps: src.cfg("steps", 0, 3000, |r| if r.chance(1, 50) { r.range(500, 3000) } else { r.range(1, 100) }) as usize,
        done: 0,
        build_left: 0,
        allow_rewrap: src.cfg("allow_rewrap", 0, 1, |r| r.chance(1, 2) as i64) == 1,
        nm,
        ns,
        nf,
    };

    let mut pending: Option<Op> = None;
    let mut first_epoch = true;
    'epochs: loop {
        // ---------------- build phase ----------------
        let mut b = Builder::new(nm, ns, nf, leaf_amp, F::IS_FLOAT);
        g.build_left = -1;
        let first_run_op: Option<Op> = loop {
            let op = match pending.take() {
                Some(op) => Some(op),
                None => src.next_op(|r| {
                    if g.done >= g.steps {
                        return None;
                    }
                    if g.build_left < 0 {
                        g.build_left = r.range(0, 10);
                    }
                    if g.build_left > 0 {
                        g.build_left -= 1;
                        if !first_epoch && r.chance(1, 4) {
                            // the owner of a borrowed leaf pulls from it directly
                            let pool = r.range(0, 2);
                            let n = [g.nm, g.ns, g.nf][pool as usize] as i64;
                            return Some(Op::new(R_OWNER_PULL, pool, r.range(0, n - 1), r.range(1, 5)));
                        }
                        if r.chance(1, 10) {
                            return Some(Op::new(R_STATIC, r.range(0, 14 * (crate::adframe::N_SWEEP as i64 + 1) - 1), r.range(0, 5), r.range(0, 5)));
                        }
                        if r.chance(1, if g.flavor == Flavor::Eof { 12 } else { 40 }) {
                            return Some(Op::new(R_LIFT, r.range(0, 24), r.range(0, 3), r.range(0, 6)));
                        }
                        Some(gen_build(r, &mut g))
                    } else {
                        Some(Op::k(R_PULL))
                    }
                }),
            };
            let Some(op) = op else { break None };
            match op.k {
                k if k <= B_DELAY => {
                    g.done += 1;
                    if b.apply(op) {
                        obs.tick(op.k);
                        obs.note(op.a as u64);
                    } else {
                        src.skip_last();
                        obs.skipped();
                    }
                }
                R_OWNER_PULL => {
                    g.done += 1;
                    let pool = op.a.clamp(0, 2);
                    let n = [nm, ns, nf][pool as usize];
                    let i = (op.b.max(0) as usize).min(n - 1);
                    let k = op.c.clamp(1, 8);
                    obs.tick(op.k);
                    obs.fault(F_OWNER_PULL);
                    for _ in 0..k {
                        match pool {
                            0 => {
                                let m = lv.main_m[i];
                                let want = match m.frames {
                                    Some(e) if m.cur >= e => F::eq_ref(),
                                    _ => F::leaf(m.id, m.cur),
                                };
                                let got = lv.main[i].next();
                                lv.main_m[i].cur += 1;
                                check_eq!(obs, got, want, "tree.owner-pull", "owner pull on leaf {} at position {}", i, m.cur);
                            }
                            1 => {
                                lv.sgn[i].next();
                                lv.sgn_m[i].cur += 1;
                            }
                            _ => {
                                lv.flt[i].next();
                                lv.flt_m[i].cur += 1;
                            }
                        }
                    }
                }
                R_REWRAP => {
                    // nothing to drop yet
                    src.skip_last();
                    obs.skipped();
                }
                R_LIFT => {
                    g.done += 1;
                    obs.tick(op.k);
                    lift_op::<F>(op, obs)?;
                }
                R_STATIC => {
                    g.done += 1;
                    obs.tick(op.k);
                    // op.a = 14 * format + variant: format 0 is the tree's own, the others sweep every
                    // sample type (mono, stereo) and every channel count 3..=32
                    let fmt = op.a.rem_euclid(14 * (crate::adframe::N_SWEEP as i64 + 1)) / 14;
                    if fmt == 0 {
                        static_stack_op::<F>(op, obs)?;
                    } else {
                        crate::with_sweep_format!((fmt - 1) as usize, sweep_stack_op, op, obs)?;
                    }
                }
                _ => break Some(op),
            }
        };
        let Some(first_run_op) = first_run_op else { break 'epochs };
        first_epoch = false;
        let (mut node, n_closures) = b.finish();
        if node.depth() >= 5 {
            obs.probe(P_DEPTH5);
        }
        if node.leaves() >= 4 {
            obs.probe(P_FOUR_LEAVES);
        }
        let closures: Vec<Closure<F>> = (0..n_closures).map(|_| Closure::new()).collect();
        let mut mc = ModelCalls::<F> {
            calls: vec![0; n_closures],
            last: vec![None; n_closures],
        };
        if eof_in_delay(&node, &lv) {
            obs.fault(F_EOF_IN_DELAY_SILENCE);
        }

        // ---------------- run phase ----------------
        // leaves are split-borrowed: signals mutably by the tree, models/pull counters by the oracle
        let Leaves {
            main,
            main_pulls,
            main_m,
            sgn,
            sgn_pulls,
            sgn_m,
            flt,
            flt_pulls,
            flt_m,
        } = &mut lv;
        let mut mv = Leaves::<F> {
            main: Vec::new(),
            main_pulls: main_pulls.clone(),
            main_m: std::mem::take(main_m),
            sgn: Vec::new(),
            sgn_pulls: sgn_pulls.clone(),
            sgn_m: std::mem::take(sgn_m),
            flt: Vec::new(),
            flt_pulls: flt_pulls.clone(),
            flt_m: std::mem::take(flt_m),
        };
        let mut av = Avail::<F> {
            main: main.iter_mut().map(Some).collect(),
            sgn: sgn.iter_mut().map(Some).collect(),
            flt: flt.iter_mut().map(Some).collect(),
        };
        let mut tree: Option<Dyn<F>> = Some(realize(&node, &mut av, &closures));
        drop(av);
        let mut next_op = Some(first_run_op);
        let exit: Result<bool, Violation> = (|| {
            loop {
                let op = match next_op.take() {
                    Some(op) => Some(op),
                    None => src.next_op(|r| {
                        if g.done >= g.steps {
                            return None;
                        }
                        let finite = remaining(&node, &mv).is_some();
                        let w: [u32; 7] = match g.flavor {
                            Flavor::Adaptors => [
                                30,
                                2,
                                if g.allow_rewrap { 3 } else { 0 },
                                0,
                                if finite { 1 } else { 0 },
                                2,
                                if finite { 1 } else { 0 },
                            ],
                            Flavor::Eof => [
                                30,
                                4,
                                if g.allow_rewrap { 1 } else { 0 },
                                0,
                                if finite { 3 } else { 0 },
                                1,
                                if finite { 2 } else { 0 },
                            ],
                        };
                        Some(match R_PULL + r.weighted(&w) as u8 {
                            R_DRAIN => Op::new(R_DRAIN, r.range(0, 16), if r.chance(1, 3) { r.range(1, 5) } else { 0 }, r.range(0, 6)),
                            R_TAKE => Op::new(R_TAKE, r.range(0, 12), if r.chance(1, 3) { r.range(1, 5) } else { 0 }, r.range(0, 6)),
                            R_INTERLEAVED => Op::new(R_INTERLEAVED, r.range(0, 16), if r.chance(1, 3) { r.range(1, 5) } else { 0 }, r.range(0, 6)),
                            k => Op::k(k),
                        })
                    }),
                };
                let Some(op) = op else { return Ok(false) };
                g.done += 1;
                let was_exhausted = exhausted(&node, &mv);
                match op.k {
                    R_PULL | R_EXHAUSTED => {
                        obs.tick(op.k);
                        let t = tree.as_mut().unwrap();
                        check_eq!(obs, t.is_exhausted(), was_exhausted, "tree.is_exhausted", "is_exhausted() before pull");
                        if op.k == R_PULL {
                            if mv.main_m.iter().chain(mv.sgn_m.iter()).chain(mv.flt_m.iter()).any(|m| m.cur > 0) {
                                obs.inflight();
                            }
                            let want = eval(&mut node, &mut mv, &mut mc, obs);
                            let got = t.next();
                            obs.note(got.bits());
                            check_eq!(obs, got, want, "tree.frame", "frame from the adaptor tree {:?}", node);
                            let now = exhausted(&node, &mv);
                            check_eq!(obs, t.is_exhausted(), now, "tree.is_exhausted", "is_exhausted() after pull");
                            check!(obs, !was_exhausted || now, "tree.exhaustion-monotone", "exhaustion flipped back");
                            if was_exhausted {
                                obs.fault(F_OVERRUN);
                            }
                            if now && !was_exhausted && exhausted_only_by_second(&node, &mv) {
                                obs.probe(P_EXHAUSTED_BY_SECOND_INPUT);
                            }
                        }
                        pull_accounting(&mv, &closures, &mc, obs)?;
                    }
                    R_TAKE => {
                        obs.tick(op.k);
                        obs.probe(P_TAKE);
                        let n = op.a.clamp(0, 40) as usize;
                        let t = tree.as_mut().unwrap();
                        // `&mut Dyn` is a Signal through the `&mut S` forwarding impl
                        let it = Signal::take(&mut *t, n);
                        check_eq!(obs, (it.len(), it.size_hint()), (n, (n, Some(n))), "tree.take-len", "take({}).len() / size_hint()", n);
                        let variant = op.b;
                        let k = op.c.clamp(0, 64) as usize;
                        if variant.rem_euclid(N_ITER_VARIANTS) != 0 {
                            obs.probe(P_ITER_METHOD);
                        }
                        let got = apply_iter_variant(it, variant, k);
                        let mut all = Vec::new();
                        for _ in 0..n {
                            all.push(eval(&mut node, &mut mv, &mut mc, obs));
                        }
                        let want = model_iter_variant(&all, variant, k);
                        if variant.rem_euclid(N_ITER_VARIANTS) == 0 {
                            check_eq!(obs, got.0.len(), n, "tree.take-count", "take({}) yields exactly n frames", n);
                        }
                        check_eq!(obs, got, want, "tree.take", "take({}) through Iterator method variant {} (k = {})", n, variant, k);
                        pull_accounting(&mv, &closures, &mc, obs)?;
                    }
                    R_DRAIN | R_INTERLEAVED => {
                        let Some(rem) = remaining(&node, &mv) else {
                            // endless tree: draining it is outside any finite run
                            src.skip_last();
                            obs.skipped();
                            g.done -= 1;
                            continue;
                        };
                        obs.tick(op.k);
                        let extra = op.a.clamp(0, 32) as usize;
                        let mut want = Vec::new();
                        while !exhausted(&node, &mv) && want.len() < 100_000 {
                            want.push(eval(&mut node, &mut mv, &mut mc, obs));
                        }
                        check_eq!(obs, want.len() as u64, rem, "tree.model-self-check", "closed-form remaining count vs stepwise model");
                        if rem == 0 {
                            obs.probe(P_DRAIN_ZERO);
                        }
                        let t = tree.take().unwrap();
                        let variant = op.b.rem_euclid(N_ITER_VARIANTS);
                        let kk = op.c.clamp(0, 64) as usize;
                        if variant != 0 {
                            // same drain, but through a provided Iterator method (bounded by take)
                            obs.probe(P_ITER_METHOD);
                            let cap_n = want.len() + 8;
                            if op.k == R_DRAIN {
                                let got = apply_iter_variant(t.until_exhausted().take(cap_n), variant, kk);
                                let want_v = model_iter_variant(&want, variant, kk);
                                check_eq!(obs, got, want_v, "tree.drain", "until_exhausted() through Iterator method variant {} (k = {})", variant, kk);
                            } else {
                                let want_s: Vec<u64> = want.iter().flat_map(|f| f.channels()).map(F::sample_bits).collect();
                                let got = apply_iter_variant(t.into_interleaved_samples().into_iter().map(F::sample_bits).take(want_s.len() + 8), variant, kk);
                                let want_v = model_iter_variant(&want_s, variant, kk);
                                check_eq!(obs, got, want_v, "tree.interleaved", "interleaved samples through Iterator method variant {} (k = {})", variant, kk);
                            }
                        } else if op.k == R_DRAIN {
                            let mut it = t.until_exhausted();
                            let (lo, hi) = it.size_hint();
                            check!(
                                obs,
                                lo <= want.len() && hi.map(|h| h >= want.len()).unwrap_or(true),
                                "tree.size-hint",
                                "until_exhausted().size_hint() = ({}, {:?}) but {} frames follow",
                                lo,
                                hi,
                                want.len()
                            );
                            let mut got = Vec::new();
                            while got.len() <= want.len() + 4 {
                                match it.next() {
                                    Some(f) => got.push(f),
                                    None => break,
                                }
                            }
                            check_eq!(obs, got.len(), want.len(), "tree.drain-count", "frames yielded by until_exhausted() over {:?}", node);
                            check_eq!(obs, got, want, "tree.drain", "until_exhausted() contents");
                            for m in 0..extra {
                                obs.fault(F_OVERRUN);
                                check_eq!(obs, it.next(), None, "tree.drain-stays-ended", "until_exhausted() call {} after its end", m);
                            }
                        } else {
                            obs.probe(P_INTERLEAVED);
                            let mut it = t.into_interleaved_samples().into_iter();
                            let want_s: Vec<u64> = want.iter().flat_map(|f| f.channels()).map(F::sample_bits).collect();
                            let (lo, hi) = it.size_hint();
                            check!(
                                obs,
                                lo <= want_s.len() && hi.map(|h| h >= want_s.len()).unwrap_or(true),
                                "tree.size-hint",
                                "interleaved sample iterator size_hint() = ({}, {:?}) but {} samples follow",
                                lo,
                                hi,
                                want_s.len()
                            );
                            let mut got = Vec::new();
                            while got.len() <= want_s.len() + 4 {
                                match it.next() {
                                    Some(s) => got.push(F::sample_bits(s)),
                                    None => break,
                                }
                            }
                            check_eq!(obs, got.len(), want_s.len(), "tree.interleaved-count", "samples = frames x channels");
                            check_eq!(obs, got, want_s, "tree.interleaved", "interleaved samples in channel order");
                            for m in 0..extra {
                                obs.fault(F_OVERRUN);
                                check_eq!(obs, it.next().map(F::sample_bits), None, "tree.interleaved-stays-ended", "sample iterator call {} after its end", m);
                            }
                        }
                        pull_accounting(&mv, &closures, &mc, obs)?;
                        obs.fault(F_REWRAP);
                        return Ok(true);
                    }
                    R_REWRAP => {
                        obs.tick(op.k);
                        obs.fault(F_REWRAP);
                        return Ok(true);
                    }
                    _ => {
                        // build ops / owner pulls while a tree is alive: the tree borrows the leaves
                        src.skip_last();
                        obs.skipped();
                        g.done -= 1;
                        continue;
                    }
                }
                let abs = (node.depth() as u64) << 8 | (exhausted(&node, &mv) as u64) << 1 | (remaining(&node, &mv).is_some() as u64);
                obs.state(abs ^ (F::CHANNELS as u64) << 16, op.k);
            }
        })();
        drop(tree);
        // hand the models back
        lv.main_m = mv.main_m;
        lv.sgn_m = mv.sgn_m;
        lv.flt_m = mv.flt_m;
        match exit? {
            true => continue 'epochs,
            false => break 'epochs,
        }
    }
    Ok(())
}

fn eof_in_delay<F: AdFrame>(n: &Node, lv: &Leaves<F>) -> bool {
    match n {
        Node::Delay(a, k) => (*k > 0 && exhausted(a, lv)) || eof_in_delay(a, lv),
        Node::Leaf(_) => false,
        Node::ZipMap(a, b, _) => eof_in_delay(a, lv) || eof_in_delay(b, lv),
        Node::Map(a, _)
        | Node::Add(a, _)
        | Node::Mul(a, _)
        | Node::Scale(a, _)
        | Node::Offset(a, _)
        | Node::ScalePc(a, _)
        | Node::OffsetPc(a, _)
        | Node::Clip(a, _)
        | Node::Inspect(a, _) => eof_in_delay(a, lv),
    }
}

fn exhausted_only_by_second<F: AdFrame>(n: &Node, lv: &Leaves<F>) -> bool {
    match n {
        Node::ZipMap(a, b, _) => !exhausted(a, lv) && exhausted(b, lv),
        Node::Add(a, j) => !exhausted(a, lv) && lv.sgn_m[*j].exhausted(),
        Node::Mul(a, j) => !exhausted(a, lv) && lv.flt_m[*j].exhausted(),
        Node::Leaf(_) => false,
        Node::Delay(a, _)
        | Node::Map(a, _)
        | Node::Scale(a, _)
        | Node::Offset(a, _)
        | Node::ScalePc(a, _)
        | Node::OffsetPc(a, _)
        | Node::Clip(a, _)
        | Node::Inspect(a, _) => exhausted_only_by_second(a, lv),
    }
}

/// Every leaf was pulled exactly as often as the model says; user closures were called exactly
/// once per produced frame, with the frame the model computed.
fn pull_accounting<F: AdFrame>(
    mv: &Leaves<F>,
    closures: &[Closure<F>],
    mc: &ModelCalls<F>,
    obs: &mut Observer,
) -> Result<(), Violation> {
    for (i, m) in mv.main_m.iter().enumerate() {
        check_eq!(obs, mv.main_pulls[i].get(), m.cur, "tree.leaf-pulls", "next() calls seen by leaf {}", i);
    }
    for (i, m) in mv.sgn_m.iter().enumerate() {
        check_eq!(obs, mv.sgn_pulls[i].get(), m.cur, "tree.leaf-pulls", "next() calls seen by add_amp input {}", i);
    }
    for (i, m) in mv.flt_m.iter().enumerate() {
        check_eq!(obs, mv.flt_pulls[i].get(), m.cur, "tree.leaf-pulls", "next() calls seen by mul_amp input {}", i);
    }
    for (i, c) in closures.iter().enumerate() {
        check_eq!(obs, c.calls.get(), mc.calls[i], "tree.closure-calls", "calls of user closure {}", i);
        if mc.last[i].is_some() {
            check_eq!(obs, c.last.get(), mc.last[i], "tree.inspect-frame", "frame seen by inspect closure {}", i);
        }
    }
    Ok(())
}

/// `signal::lift(iter, f)`: standalone (builds its own from_iter inside).
fn lift_op<F: AdFrame>(op: Op, obs: &mut Observer) -> Result<(), Violation> {
    obs.probe(P_LIFT);
    let len = op.a.clamp(0, 24) as u64;
    let variant = op.b.clamp(0, 3);
    let k = op.c.clamp(0, 6) as u64;
    let id = 3 + 16 * 4;
    let (it, _, _) = ProbeIter::new(id, len, variant == 3, F::leaf as fn(u32, u64) -> F);
    let src_frames: Vec<F> = (0..len).map(|i| F::leaf(id, i)).collect();
    let (got, want): (Vec<F>, Vec<F>) = match variant {
        0 => (signal::lift(it, |s| s).collect(), src_frames),
        1 => (
            signal::lift(it, |s| s.offset_amp(F::sparam(64))).collect(),
            src_frames.iter().map(|f| f.offset_ref(F::sparam(64))).collect(),
        ),
        2 => {
            let mut w = vec![F::eq_ref(); k as usize];
            w.extend(src_frames.iter().copied());
            (signal::lift(it, |s| s.delay(k as usize)).collect(), w)
        }
        _ => {
            // joined with a shorter / longer second finite input
            let (s2, _) = ProbeSignal::with(9 + 16 * 4, Some(k * 3), F::sleaf as fn(u32, u64) -> F::SF);
            let n = len.min(k * 3);
            let w = (0..n).map(|i| F::leaf(id, i).add_ref(F::sleaf(9 + 16 * 4, i))).collect();
            (signal::lift(it, |s| s.add_amp(s2)).collect(), w)
        }
    };
    if len == 0 {
        obs.fault(F_EMPTY_SOURCE);
    }
    obs.fault(F_EOF);
    check_eq!(obs, got.len(), want.len(), "lift.count", "frames yielded by lift (variant {}, len {}, k {})", variant, len, k);
    check_eq!(obs, got, want, "lift.frames", "lift contents (variant {})", variant);
    Ok(())
}


// ---------------------------------------------------------------------------------------------
// provided Iterator methods on the library's iterator types must behave as their default
// definitions over next(): whatever they skip is consumed, nothing else
// ---------------------------------------------------------------------------------------------

pub const N_ITER_VARIANTS: i64 = 6;

pub fn apply_iter_variant<T, I: Iterator<Item = T>>(mut it: I, variant: i64, k: usize) -> (Vec<T>, usize) {
    match variant.rem_euclid(N_ITER_VARIANTS) {
        0 => (it.collect(), 0),
        1 => {
            let x = it.nth(k);
            let some = x.is_some() as usize;
            let mut v: Vec<T> = x.into_iter().collect();
            v.extend(it);
            (v, some)
        }
        2 => (it.skip(k).collect(), 0),
        3 => (Vec::new(), it.count()),
        4 => (it.last().into_iter().collect(), 0),
        _ => (it.step_by(k + 1).collect(), 0),
    }
}

pub fn model_iter_variant<T: Clone>(items: &[T], variant: i64, k: usize) -> (Vec<T>, usize) {
    match variant.rem_euclid(N_ITER_VARIANTS) {
        0 => (items.to_vec(), 0),
        1 => {
            if k < items.len() {
                (items[k..].to_vec(), 1)
            } else {
                (Vec::new(), 0)
            }
        }
        2 => (items.iter().skip(k).cloned().collect(), 0),
        3 => (Vec::new(), items.len()),
        4 => (items.last().cloned().into_iter().collect(), 0),
        _ => (items.iter().step_by(k + 1).cloned().collect(), 0),
    }
}

/// Statically typed adaptor stacks (no boxing between the stages): the same adaptor applied
/// twice in method-call syntax, and a few mixed chains, over a short finite leaf.
/// An interleaved-sample reader cloned after `k` samples (mid-frame when `k` is not a multiple of
/// the channel count): original and clone continue with the same remaining samples, and both end
/// after exactly frames x channels samples.
fn interleaved_clone<F: AdFrame>(as_iterator: bool, k: u64, obs: &mut Observer) -> Result<(), Violation>
where
    F::Channels: Clone,
    F::Sample: std::fmt::Debug + PartialEq,
{
    let id = 2 + 16 * 5;
    let len = 5u64;
    let ch = F::CHANNELS as u64;
    let k = k.min(len * ch);
    let mk = || ProbeSignal::with(id, Some(len), F::leaf as fn(u32, u64) -> F).0;
    let sample = |j: u64| -> Option<F::Sample> { if j < len * ch { Some(*F::leaf(id, j / ch).channel((j % ch) as usize).unwrap()) } else { None } };
    if !as_iterator {
        let mut a = mk().into_interleaved_samples();
        for j in 0..k {
            check_eq!(obs, a.next_sample(), sample(j), "static.interleaved", "interleaved sample {} of the original reader ({})", j, F::NAME);
        }
        let mut b = a.clone();
        for j in k..len * ch + 2 {
            check_eq!(obs, b.next_sample(), sample(j), "static.interleaved-clone", "sample {} from a reader cloned after {} samples ({})", j, k, F::NAME);
            check_eq!(obs, a.next_sample(), sample(j), "static.interleaved", "interleaved sample {} of the original reader ({})", j, F::NAME);
        }
    } else {
        let mut it = mk().into_interleaved_samples().into_iter();
        for j in 0..k {
            check_eq!(obs, it.next(), sample(j), "static.interleaved", "interleaved sample {} of the original iterator ({})", j, F::NAME);
        }
        let mut b = it.clone();
        for j in k..len * ch + 2 {
            check_eq!(obs, b.next(), sample(j), "static.interleaved-clone", "sample {} from an iterator cloned after {} samples ({})", j, k, F::NAME);
            check_eq!(obs, it.next(), sample(j), "static.interleaved", "interleaved sample {} of the original iterator ({})", j, F::NAME);
        }
    }
    Ok(())
}

/// The lean version of the static stacks used for the format sweep (88 formats): three stacks that
/// together pass through every amplitude adaptor, unary and binary, for 7 frames across the end of a
/// 5-frame source.  Kept small on purpose — it is instantiated once per format.
fn sweep_stack_op<F: AdFrame>(op: Op, obs: &mut Observer) -> Result<(), Violation> {
    let q1 = op.b.rem_euclid(6);
    let q2 = op.c.rem_euclid(6);
    let gains = [4i64, 16, -12, 2, 8, -4]; // /8
    let (g1, g2) = (gains[q1 as usize], gains[q2 as usize]);
    let offs = [0i64, 7, -9, 40, -33, 64]; // /1024
    let (o1, o2) = (offs[q1 as usize], offs[q2 as usize]);
    let id = 2 + 16 * 5; // leaf amplitude < 1/32
    let len = 5u64;
    let src_f = |i: u64| if i < len { F::leaf(id, i) } else { F::eq_ref() };
    let sgn_f = |i: u64| if i < len + 1 { F::sleaf(id + 1, i) } else { F::seq_ref() };
    let (main, main_pulls) = ProbeSignal::with(id, Some(len), F::leaf as fn(u32, u64) -> F);
    let (sgn, sgn_pulls) = ProbeSignal::with(id + 1, Some(len + 1), F::sleaf as fn(u32, u64) -> F::SF);
    let (flt, _) = ProbeSignal::with(3, None, F::fleaf as fn(u32, u64) -> F::FF);
    let t = F::sparam(o1.abs() + 20);
    let mut s = main
        .scale_amp(F::fparam(g1))
        .offset_amp(F::sparam(o2))
        .add_amp(sgn)
        .clip_amp(t)
        .mul_amp(flt)
        .scale_amp_per_channel(F::fpc(q1))
        .offset_amp_per_channel(F::spc(q2 + 100))
        .delay((q1 % 3) as usize);
    let delay = (q1 % 3) as u64;
    for n in 0..7u64 {
        let want: F = if n < delay {
            F::eq_ref()
        } else {
            let i = n - delay;
            src_f(i)
                .scale_ref(F::fparam(g1))
                .offset_ref(F::sparam(o2))
                .add_ref(sgn_f(i))
                .clip_ref(t)
                .mul_ref(F::fleaf(3, i))
                .mul_ref(F::fpc(q1))
                .add_ref(F::spc(q2 + 100))
        };
        // a combining adaptor is exhausted as soon as any input is; the delay keeps it live while silent
        let exhausted = n >= delay + len;
        check_eq!(obs, s.is_exhausted(), exhausted, "sweep.is_exhausted", "{}: before frame {}", F::NAME, n);
        let got = s.next();
        check_eq!(obs, got, want, "sweep.frame", "{} through every amplitude adaptor (params {}, {}), frame {}", F::NAME, q1, q2, n);
        let pulled = (n + 1).saturating_sub(delay);
        check_eq!(obs, (main_pulls.get(), sgn_pulls.get()), (pulled, pulled), "sweep.pulls", "{}: source pulls after frame {}", F::NAME, n);
    }
    let _ = g2;
    // second stack: frames made of the format's edge values (minimum, maximum, around equilibrium,
    // powers of two) through adaptors that keep every one of them in range: unit gain, zero offset, a
    // clip that only touches the minimum, multiplication by ones, addition of zeros, halving
    let eid = 7 + (q1 * 6 + q2) as u32;
    let (edge, edge_pulls) = ProbeSignal::with(eid, Some(len + 2), F::edge_leaf as fn(u32, u64) -> F);
    let half = F::fparam(4);
    let mut e = edge
        .scale_amp(F::fparam(8))
        .offset_amp(F::sparam(0))
        .clip_amp(F::smax())
        .mul_amp(signal::gen(F::ones))
        .add_amp(signal::gen(F::zeros))
        .scale_amp(half);
    for n in 0..len + 2 {
        let want = F::edge_leaf(eid, n)
            .scale_ref(F::fparam(8))
            .offset_ref(F::sparam(0))
            .clip_ref(F::smax())
            .mul_ref(F::ones())
            .add_ref(F::zeros())
            .scale_ref(half);
        let got = e.next();
        check_eq!(obs, got, want, "sweep.edge-frame", "{}: edge values {:?} through the unit / zero / half adaptors, frame {}", F::NAME, F::edge_leaf(eid, n), n);
        check_eq!(obs, edge_pulls.get(), n + 1, "sweep.pulls", "{}: edge source pulls after frame {}", F::NAME, n);
    }
    obs.probe(P_STATIC_STACK);
    Ok(())
}

fn static_stack_op<F: AdFrame>(op: Op, obs: &mut Observer) -> Result<(), Violation> {
    let variant = op.a.rem_euclid(14);
    let q1 = op.b.rem_euclid(6);
    let q2 = op.c.rem_euclid(6);
    let gains = [4i64, 16, -12, 2, 8, -4]; // /8
    let (g1, g2) = (gains[q1 as usize], gains[q2 as usize]);
    let offs = [0i64, 7, -9, 40, -33, 64]; // /1024
    let (o1, o2) = (offs[q1 as usize], offs[q2 as usize]);
    let id = 2 + 16 * 5; // leaf amplitude < 1/32
    let len = 5u64;
    let mk = || ProbeSignal::with(id, Some(len), F::leaf as fn(u32, u64) -> F).0;
    let src_f = |i: u64| if i < len { F::leaf(id, i) } else { F::eq_ref() };
    let n_pull = 8u64;
    macro_rules! run {
        ($sig:expr, $f:expr, $delay:expr) => {{
            let mut s = $sig;
            let delay: u64 = $delay;
            let mut snap = None;
            let mut restored = false;
            let mut n = 0u64;
            let mut pulls = 0u64;
            while pulls < n_pull + 3 && n < n_pull {
                pulls += 1;
                if n == 3 && q1 % 2 == 0 {
                    // snapshot/restore of a running adaptor stack: continue on the clone
                    s = s.clone();
                }
                if n == 2 && q2 % 2 == 0 && snap.is_none() {
                    snap = Some(s.clone());
                }
                if n == 5 && !restored {
                    if let Some(sn) = &snap {
                        // rewind the running stack onto the earlier snapshot, in place
                        s.clone_from(sn);
                        n = 2;
                        restored = true;
                    }
                }
                let want: F = if n < delay { F::eq_ref() } else { ($f)(src_f(n - delay)) };
                let exhausted = n >= delay + len;
                check_eq!(obs, s.is_exhausted(), exhausted, "static.is_exhausted", "stack variant {} before frame {}{}", variant, n, if restored { " (after clone_from onto the frame-2 snapshot)" } else { "" });
                let got = s.next();
                check_eq!(obs, got, want, "static.frame", "statically typed stack variant {} (params {}, {}), frame {}{}", variant, q1, q2, n, if restored { " (after clone_from onto the frame-2 snapshot)" } else { "" });
                n += 1;
            }
        }};
    }
    if variant >= 12 {
        // (on fixed concrete formats: the readers' Clone needs bounds AdFrame does not carry)
        let k = op.b.rem_euclid(6) as u64 * 2 + op.c.rem_euclid(6) as u64 + 1;
        match op.c.rem_euclid(5) {
            0 => interleaved_clone::<[i16; 2]>(variant == 13, k, obs)?,
            1 => interleaved_clone::<[u8; 3]>(variant == 13, k, obs)?,
            2 => interleaved_clone::<[f32; 9]>(variant == 13, k, obs)?,
            3 => interleaved_clone::<f64>(variant == 13, k, obs)?,
            _ => interleaved_clone::<[i32; 12]>(variant == 13, k, obs)?,
        }
        obs.probe(P_STATIC_STACK);
        return Ok(());
    }
    match variant {
        0 => run!(mk().scale_amp(F::fparam(g1)).scale_amp(F::fparam(g2)), |f: F| f.scale_ref(F::fparam(g1)).scale_ref(F::fparam(g2)), 0),
        1 => run!(mk().offset_amp(F::sparam(o1)).offset_amp(F::sparam(o2)), |f: F| f.offset_ref(F::sparam(o1)).offset_ref(F::sparam(o2)), 0),
        2 => run!(mk().delay(q1 as usize).delay(q2 as usize), |f: F| f, (q1 + q2) as u64),
        3 => run!(mk().clip_amp(F::sparam(o1.abs())).clip_amp(F::sparam(o2.abs())), |f: F| f.clip_ref(F::sparam(o1.abs())).clip_ref(F::sparam(o2.abs())), 0),
        4 => run!(
            mk().scale_amp(F::fparam(g1)).offset_amp(F::sparam(o2)).scale_amp(F::fparam(g2)),
            |f: F| f.scale_ref(F::fparam(g1)).offset_ref(F::sparam(o2)).scale_ref(F::fparam(g2)),
            0
        ),
        5 => run!(mk().map(|f: F| f.reverse()).map(|f: F| f.select(F::eq_ref())), |f: F| f.reverse().select(F::eq_ref()), 0),
        6 => run!(
            mk().scale_amp_per_channel(F::fpc(q1)).scale_amp_per_channel(F::fpc(q2 + 9)),
            |f: F| f.mul_ref(F::fpc(q1)).mul_ref(F::fpc(q2 + 9)),
            0
        ),
        7 => run!(
            mk().offset_amp_per_channel(F::spc(q1)).offset_amp_per_channel(F::spc(q2 + 100)),
            |f: F| f.add_ref(F::spc(q1)).add_ref(F::spc(q2 + 100)),
            0
        ),
        8 => run!(mk().delay(q1 as usize).scale_amp(F::fparam(g2)).delay(q2 as usize), |f: F| f.scale_ref(F::fparam(g2)), (q1 + q2) as u64),
        9 => run!(mk().inspect(|_f: &F| ()).inspect(|_f: &F| ()).offset_amp(F::sparam(o1)), |f: F| f.offset_ref(F::sparam(o1)), 0),
        10 => run!(
            mk().scale_amp(F::fparam(g1)).scale_amp(F::fparam(g2)).scale_amp(F::fparam(4)),
            |f: F| f.scale_ref(F::fparam(g1)).scale_ref(F::fparam(g2)).scale_ref(F::fparam(4)),
            0
        ),
        _ => run!(mk().offset_amp(F::sparam(o1)).clip_amp(F::sparam(20)).offset_amp(F::sparam(o2)), |f: F| f.offset_ref(F::sparam(o1)).clip_ref(F::sparam(20)).offset_ref(F::sparam(o2)), 0),
    }
    obs.probe(P_STATIC_STACK);
    Ok(())
}

// ---------------------------------------------------------------------------------------------
// seeded composition for the allocation scenario (C07): a tree that owns its leaves
// ---------------------------------------------------------------------------------------------

pub struct Composition<F: AdFrame> {
    tree: Option<Dyn<'static, F>>,
    leaves: *mut Leaves<F>,
}

impl<F: AdFrame> Composition<F> {
    pub fn build(seed: u64) -> Self {
        let mut r = Rng::new(seed);
        let shift = 4u32;
        let mut lv = Leaves::<F> {
            main: Vec::new(),
            main_pulls: Vec::new(),
            main_m: Vec::new(),
            sgn: Vec::new(),
            sgn_pulls: Vec::new(),
            sgn_m: Vec::new(),
            flt: Vec::new(),
            flt_pulls: Vec::new(),
            flt_m: Vec::new(),
        };
        for i in 0..3u32 {
            let id = i + 16 * shift;
            let n = r.range(0, 60) as u64;
            let sig = match r.below(3) {
                0 => LeafSig::Probe(ProbeSignal::with(id, Some(n), F::leaf as fn(u32, u64) -> F).0),
                1 => {
                    let (it, _, _) = ProbeIter::new(id, n, false, F::leaf as fn(u32, u64) -> F);
                    LeafSig::Iter(Counted::new(signal::from_iter(it)).0)
                }
                _ => {
                    let (it, _, _) = ProbeIter::new(id, n * F::CHANNELS as u64 + 1, false, inter_sample::<F> as fn(u32, u64) -> F::Sample);
                    LeafSig::Inter(Counted::new(signal::from_interleaved_samples_iter::<_, F>(it)).0)
                }
            };
            lv.main.push(sig);
        }
        for j in 0..2u32 {
            lv.sgn.push(ProbeSignal::with(8 + j + 16 * shift, Some(r.range(0, 80) as u64), F::sleaf as fn(u32, u64) -> F::SF).0);
            lv.flt.push(ProbeSignal::with(12 + j, None, F::fleaf as fn(u32, u64) -> F::FF).0);
        }
        let mut b = Builder::new(3, 2, 2, 1.0 / (1u64 << shift) as f64, F::IS_FLOAT);
        let mut g = Gen {
            flavor: Flavor::Adaptors,
            steps: 0,
            done: 0,
            build_left: 0,
            allow_rewrap: false,
            nm: 3,
            ns: 2,
            nf: 2,
        };
        for _ in 0..r.range(2, 12) {
            let op = gen_build(&mut r, &mut g);
            b.apply(op);
        }
        let (node, n_closures) = b.finish();
        let closures: Vec<Closure<F>> = (0..n_closures).map(|_| Closure::new()).collect();
        let leaves: *mut Leaves<F> = Box::into_raw(Box::new(lv));
        // SAFETY: the leaves live in a heap box that is freed only after the tree (which holds the
        // references) has been dropped, see Drop below; the box is never touched while the tree lives.
        let lref: &'static mut Leaves<F> = unsafe { &mut *leaves };
        let mut av = Avail::<'static, F> {
            main: lref.main.iter_mut().map(Some).collect(),
            sgn: lref.sgn.iter_mut().map(Some).collect(),
            flt: lref.flt.iter_mut().map(Some).collect(),
        };
        let tree = realize(&node, &mut av, &closures);
        Composition {
            tree: Some(tree),
            leaves,
        }
    }

    #[inline]
    pub fn pull(&mut self) -> (bool, F) {
        let t = self.tree.as_mut().unwrap();
        (t.is_exhausted(), t.next())
    }
}

impl<F: AdFrame> Drop for Composition<F> {
    fn drop(&mut self) {
        self.tree = None;
        unsafe { drop(Box::from_raw(self.leaves)) };
    }
}
