//! C08 — the rate converter positions and consumes source frames exactly by the rate ratio.
//!
//! Actors: the output consumer, the ratio controller (harness setters between outputs, or the
//! `mul_hz` control signal pulled once per output), the finite/endless probe source.  The model
//! keeps the source position P_n = r_0 + .. + r_(n-1) *exactly* (128-bit fixed point, 2^-64
//! resolution — every f64 ratio in [2^-10, 64] is represented exactly).

use crate::adframe::AdFrame;
use crate::probe::{ProbeSignal, Pulls};
use dasp_interpolate::floor::Floor;
use dasp_interpolate::linear::Linear;
use dasp_sample::Duplex;
use dasp_signal::interpolate::Converter;
use dasp_signal::{MulHz, Signal};
use simcore::{check, check_eq, f2i, i2f, Observer, Op, OpSpec, Rng, Scenario, Source, Violation};

pub struct ConverterScenario;

const O_NEXT: u8 = 0;
const O_SET: u8 = 1; // a = ratio bits, b = method
const O_PROBE: u8 = 2;
const O_DRAIN: u8 = 3;
const O_INTO_SOURCE: u8 = 4;
const O_CLONE_SWAP: u8 = 5;
const O_EXTEND_SOURCE: u8 = 6; // a = frames appended to the (exactly exhausted) source

static OPS: [OpSpec; 7] = [
    OpSpec { name: "next", shrink: 0 },
    OpSpec { name: "set_ratio", shrink: 2 },
    OpSpec { name: "is_exhausted", shrink: 0 },
    OpSpec { name: "drain_until_exhausted", shrink: 0 },
    OpSpec { name: "into_source", shrink: 0 },
    OpSpec { name: "replace_converter_by_its_clone", shrink: 0 },
    OpSpec { name: "source_receives_more_frames_through_source_mut", shrink: 1 },
];

const F_RATIO_CHANGE: usize = 0;
const F_BURST: usize = 1;
const F_CRAWL: usize = 2;
const F_EOF: usize = 3;
const F_EOF_DURING_PRIMING: usize = 4;
const F_OVERRUN: usize = 5;
const F_CONTROL_EOF: usize = 6;
const F_RATIO_CHANGE_BEFORE_FIRST: usize = 7;
const F_CLONE_SWAP: usize = 8;
const F_SOURCE_REFILLED: usize = 9;

const P_EXACT_INTEGER_POSITION: usize = 0;
const P_AMBIGUOUS_BOUNDARY: usize = 1;
const P_MULTI_PULL: usize = 2;
const P_RATIO_ONE: usize = 3;
const P_DRAIN_FORMULA_PLUS_ONE: usize = 4;
const P_DRAIN_FORMULA_EXACT: usize = 5;
const P_INTEGER_FORMAT: usize = 6;
const P_LONG_RUN: usize = 7;
const P_CLONE_MID_INTERVAL: usize = 8;

const Q: u32 = 64;

/// Exact conversion of a ratio in [2^-10, 64] to Q64 fixed point.
fn to_q64(r: f64) -> u128 {
    let bits = r.to_bits();
    let exp = ((bits >> 52) & 0x7ff) as i32;
    let man = (bits & ((1u64 << 52) - 1)) | (1u64 << 52);
    let shift = exp - 1075 + Q as i32;
    debug_assert!(shift >= 0 && shift < 70, "ratio out of the supported range");
    (man as u128) << shift
}

fn dyadic_ratio(r: &mut Rng) -> f64 {
    match r.below(10) {
        0 | 1 => 1.0,
        2 => 0.5,
        3 => 2.0,
        4 => *r.pick(&[1.5, 0.25, 3.0, 0.75, 1.25, 8.0, 1.0 / 1024.0, 1023.0 / 1024.0, 1025.0 / 1024.0]),
        _ => {
            let m = r.range(0, 10) as u32;
            let k = r.range(1, 8 * (1i64 << m));
            k as f64 / (1u64 << m) as f64
        }
    }
}

fn free_ratio(r: &mut Rng) -> f64 {
    match r.below(8) {
        0 => 44_100.0 / 48_000.0,
        1 => 48_000.0 / 44_100.0,
        2 => *r.pick(&[1.0 / 3.0, 0.1, std::f64::consts::FRAC_PI_4, 2.0 / 3.0, 0.999_999_999, 1.000_000_001, 7.3, 63.9]),
        3 => 1.0,
        _ => {
            // log-uniform in [2^-9, 2^6)
            let e = r.f64_in(-9.0, 6.0);
            e.exp2()
        }
    }
}

/// The `mul_hz` control signal's frame `idx` (pure function of the probe id and index).
fn ctl_ratio(id: u32, idx: u64) -> f64 {
    let mut r = Rng::new(simcore::rng::mix(&[id as u64, idx]));
    let v = if id & 1 == 0 { dyadic_ratio(&mut r) } else { free_ratio(&mut r) };
    // stretches of constant ratio
    if (id >> 1) & 1 == 1 && idx % 8 != 0 {
        return ctl_ratio(id, idx - idx % 8);
    }
    v
}

/// The stock interpolators are not `Clone`; `Converter` is (when its parts are).  These wrappers run
/// the real `Floor`/`Linear` code and remember the frames they hold so a clone can be rebuilt, which
/// makes the converter's own `Clone` reachable: a clone taken mid-stream must continue exactly.
struct CFloor<F> {
    inner: Floor<F>,
    left: F,
}
impl<F: AdFrame> CFloor<F> {
    fn new(left: F) -> Self {
        CFloor { inner: Floor::new(left), left }
    }
}
impl<F: AdFrame> Clone for CFloor<F> {
    fn clone(&self) -> Self {
        CFloor::new(self.left)
    }
}
impl<F: AdFrame> dasp_interpolate::Interpolator for CFloor<F>
where
    F::Sample: Duplex<f64>,
{
    type Frame = F;
    fn interpolate(&self, x: f64) -> F {
        self.inner.interpolate(x)
    }
    fn next_source_frame(&mut self, f: F) {
        self.left = f;
        self.inner.next_source_frame(f)
    }
    fn reset(&mut self) {
        self.left = F::EQUILIBRIUM;
        self.inner.reset()
    }
}
struct CLinear<F> {
    inner: Linear<F>,
    left: F,
    right: F,
}
impl<F: AdFrame> CLinear<F> {
    fn new(left: F, right: F) -> Self {
        CLinear { inner: Linear::new(left, right), left, right }
    }
}
impl<F: AdFrame> Clone for CLinear<F> {
    fn clone(&self) -> Self {
        CLinear::new(self.left, self.right)
    }
}
impl<F: AdFrame> dasp_interpolate::Interpolator for CLinear<F>
where
    F::Sample: Duplex<f64>,
{
    type Frame = F;
    fn interpolate(&self, x: f64) -> F {
        self.inner.interpolate(x)
    }
    fn next_source_frame(&mut self, f: F) {
        self.left = self.right;
        self.right = f;
        self.inner.next_source_frame(f)
    }
    fn reset(&mut self) {
        self.left = F::EQUILIBRIUM;
        self.right = F::EQUILIBRIUM;
        self.inner.reset()
    }
}

enum Sut<F: AdFrame>
where
    F::Sample: Duplex<f64>,
{
    FloorDirect(Converter<ProbeSignal<F>, Floor<F>>),
    LinearDirect(Converter<ProbeSignal<F>, Linear<F>>),
    FloorClone(Converter<ProbeSignal<F>, CFloor<F>>),
    LinearClone(Converter<ProbeSignal<F>, CLinear<F>>),
    FloorMul(MulHz<ProbeSignal<F>, ProbeSignal<f64>, Floor<F>>),
    LinearMul(MulHz<ProbeSignal<F>, ProbeSignal<f64>, Linear<F>>),
}

impl<F: AdFrame> Sut<F>
where
    F::Sample: Duplex<f64>,
{
    fn next(&mut self) -> F {
        match self {
            Sut::FloorDirect(c) => c.next(),
            Sut::LinearDirect(c) => c.next(),
            Sut::FloorClone(c) => c.next(),
            Sut::LinearClone(c) => c.next(),
            Sut::FloorMul(c) => c.next(),
            Sut::LinearMul(c) => c.next(),
        }
    }
    fn is_exhausted(&self) -> bool {
        match self {
            Sut::FloorDirect(c) => c.is_exhausted(),
            Sut::LinearDirect(c) => c.is_exhausted(),
            Sut::FloorClone(c) => c.is_exhausted(),
            Sut::LinearClone(c) => c.is_exhausted(),
            Sut::FloorMul(c) => c.is_exhausted(),
            Sut::LinearMul(c) => c.is_exhausted(),
        }
    }
    fn set(&mut self, method: i64, v: f64) {
        fn go<S: Signal, I: dasp_interpolate::Interpolator>(c: &mut Converter<S, I>, method: i64, v: f64) {
            match method {
                0 => c.set_playback_hz_scale(v),
                1 => c.set_hz_to_hz(v * 48_000.0, 48_000.0),
                _ => c.set_sample_hz_scale(1.0 / v),
            }
        }
        match self {
            Sut::FloorDirect(c) => go(c, method, v),
            Sut::LinearDirect(c) => go(c, method, v),
            Sut::FloorClone(c) => go(c, method, v),
            Sut::LinearClone(c) => go(c, method, v),
            _ => {}
        }
    }
    /// the source seen through `source()` and `source_mut()`: (is_exhausted, is_exhausted)
    fn source_views(&mut self) -> Option<(bool, bool)> {
        match self {
            Sut::FloorDirect(c) => Some((c.source().is_exhausted(), c.source_mut().is_exhausted())),
            Sut::LinearDirect(c) => Some((c.source().is_exhausted(), c.source_mut().is_exhausted())),
            Sut::FloorClone(c) => Some((c.source().is_exhausted(), c.source_mut().is_exhausted())),
            Sut::LinearClone(c) => Some((c.source().is_exhausted(), c.source_mut().is_exhausted())),
            _ => None,
        }
    }
    /// the owner appends `k` frames to the finite source through `source_mut()`
    fn extend_source(&mut self, k: u64) -> bool {
        fn go<F: dasp_frame::Frame>(p: &mut ProbeSignal<F>, k: u64) {
            p.end = p.end.map(|e| e + k);
        }
        match self {
            Sut::FloorDirect(c) => go(c.source_mut(), k),
            Sut::LinearDirect(c) => go(c.source_mut(), k),
            Sut::FloorClone(c) => go(c.source_mut(), k),
            Sut::LinearClone(c) => go(c.source_mut(), k),
            _ => return false,
        }
        true
    }
    /// replace the converter by its clone (true if this variant can)
    fn clone_swap(&mut self) -> bool {
        match self {
            Sut::FloorClone(c) => {
                let d = c.clone();
                *c = d;
                true
            }
            Sut::LinearClone(c) => {
                let d = c.clone();
                *c = d;
                true
            }
            _ => false,
        }
    }
}

fn effective(method: i64, v: f64) -> f64 {
    match method {
        0 => v,
        1 => (v * 48_000.0) / 48_000.0,
        _ => 1.0 / (1.0 / v),
    }
}

struct Model {
    /// exact source position before the next output, Q64
    p: u128,
    /// exact position before the previous output
    p_prev: u128,
    n: u64,
    ratio: f64,
    prime: u64,
    len: Option<u64>,
    linear: bool,
    dyadic: bool,
}

impl Model {
    /// accumulated rounding slack of the implementation's f64 accumulator, Q64
    fn slack(&self) -> u128 {
        if self.dyadic {
            0
        } else {
            // each `acc += ratio` rounds by at most ulp(128)/2 = 2^-47; n of them
            (self.n as u128 + 1) << (Q - 46)
        }
    }
    fn floor_lo_hi(&self, p: u128) -> (u64, u64) {
        let s = self.slack();
        ((p.saturating_sub(s) >> Q) as u64, ((p + s) >> Q) as u64)
    }
    fn src_exhausted_after(&self, pulled: u64) -> bool {
        matches!(self.len, Some(l) if self.prime + pulled >= l)
    }
}

fn src_frame<F: AdFrame>(id: u32, len: Option<u64>, i: u64) -> F {
    match len {
        Some(l) if i >= l => F::eq_ref(),
        _ => crate::adframe::any_leaf::<F>(id, i),
    }
}

fn expected<F: AdFrame>(m: &Model, id: u32, k: u64, frac: f64) -> F {
    if !m.linear {
        src_frame::<F>(id, m.len, k)
    } else {
        let l = src_frame::<F>(id, m.len, k).to_f64s();
        let r = src_frame::<F>(id, m.len, k + 1).to_f64s();
        let v: Vec<f64> = l.iter().zip(r.iter()).map(|(l, r)| ((r - l) * frac) + l).collect();
        F::from_f64s(&v)
    }
}

fn ulp(x: f64) -> f64 {
    let a = x.abs().max(f64::MIN_POSITIVE);
    f64::from_bits(a.to_bits() + 1) - a
}

/// Check one produced frame against the model at exact position `p`.
fn check_output<F: AdFrame>(m: &Model, id: u32, p: u128, got: F, obs: &mut Observer) -> Result<(), Violation> {
    let (klo, khi) = m.floor_lo_hi(p);
    let frac_exact = (p & ((1u128 << Q) - 1)) as f64 / 2f64.powi(Q as i32);
    // exact comparison where the property is exact: the floor interpolator yields a source frame, and any
    // interpolator at an integer position / ratio 1 yields the frame itself.  A linear blend at a fractional
    // position is stated "up to float rounding": it goes through the tolerance path below (slack 0 here).
    if klo == khi && m.dyadic && (!m.linear || frac_exact == 0.0) {
        let want: F = expected(m, id, klo, frac_exact);
        // the linear interpolator goes through f64: for the 64-bit formats a frame with more than 53
        // significant bits comes back rounded ("up to float rounding") — or untouched, if an implementation
        // returns the frame itself at fraction 0.  Both are the source frame in the property's sense.
        let want = if m.linear && got == src_frame::<F>(id, m.len, klo) { got } else { want };
        check_eq!(
            obs,
            got,
            want,
            "converter.frame",
            "output {} at exact position {}+{} (ratio {}, {})",
            m.n,
            klo,
            frac_exact,
            m.ratio,
            if m.linear { "linear" } else { "floor" }
        );
        if m.linear {
            contained::<F>(m, id, klo, got, obs)?;
        }
        return Ok(());
    }
    // free regime: tolerance derived from the accumulator slack
    let slack = m.slack() as f64 / 2f64.powi(Q as i32);
    let g = got.to_f64s();
    let mut ok_any = false;
    let mut msg = String::new();
    for k in klo..=khi {
        let frac = if k == (p >> Q) as u64 {
            frac_exact
        } else if k < (p >> Q) as u64 {
            1.0
        } else {
            0.0
        };
        let l = src_frame::<F>(id, m.len, k).to_f64s();
        let r = src_frame::<F>(id, m.len, k + 1).to_f64s();
        let mut ok = true;
        for ch in 0..g.len() {
            let (ideal, tol) = if m.linear {
                let ideal = (r[ch] - l[ch]) * frac + l[ch];
                let tol = (r[ch] - l[ch]).abs() * slack + 4.0 * ulp(l[ch].abs().max(r[ch].abs())) + F::lsb_f64() + conv_tol::<F>(ideal);
                (ideal, tol)
            } else {
                (l[ch], 0.0)
            };
            if (g[ch] - ideal).abs() > tol {
                ok = false;
                msg = format!("channel {}: got {}, ideal {} ± {} at position {}+{}", ch, g[ch], ideal, tol, k, frac);
            }
        }
        ok_any |= ok;
    }
    check!(obs, ok_any, "converter.frame", "output {} (ratio {}): {}", m.n, m.ratio, msg);
    if klo != khi {
        obs.probe(P_AMBIGUOUS_BOUNDARY);
    } else if m.linear {
        contained::<F>(m, id, klo, got, obs)?;
    }
    Ok(())
}

/// Conversion rounding of the output format relative to the f64 ideal (f32 outputs round).
fn conv_tol<F: AdFrame>(ideal: f64) -> f64 {
    if F::IS_FLOAT && F::NAME.contains("f32") {
        // (plus the absolute spacing of f32 subnormals)
        (ideal.abs() as f32 * f32::EPSILON) as f64 + 1.5e-45
    } else if F::IS_FLOAT {
        5e-324
    } else {
        0.0
    }
}

/// Linear output never leaves the interval spanned by its two frames (2 ulp / 1 LSB slack).
fn contained<F: AdFrame>(m: &Model, id: u32, k: u64, got: F, obs: &mut Observer) -> Result<(), Violation> {
    let l = src_frame::<F>(id, m.len, k).to_f64s();
    let r = src_frame::<F>(id, m.len, k + 1).to_f64s();
    let g = got.to_f64s();
    for ch in 0..g.len() {
        let lo = l[ch].min(r[ch]);
        let hi = l[ch].max(r[ch]);
        let tol = 2.0 * ulp(hi.abs().max(lo.abs())) + F::lsb_f64() + conv_tol::<F>(hi.abs().max(lo.abs()));
        check!(
            obs,
            g[ch] >= lo - tol && g[ch] <= hi + tol,
            "converter.linear-containment",
            "output {} channel {}: {} outside [{}, {}]",
            m.n,
            ch,
            g[ch],
            lo,
            hi
        );
    }
    Ok(())
}

fn drive<F: AdFrame>(src: &mut Source, obs: &mut Observer) -> Result<(), Violation>
where
    F::Sample: Duplex<f64>,
{
    if !F::IS_FLOAT {
        obs.probe(P_INTEGER_FORMAT);
    }
    let linear = src.cfg("interp", 0, 1, |r| r.range(0, 1)) == 1;
    let mul_hz = src.cfg("mul_hz", 0, 1, |r| r.chance(1, 3) as i64) == 1;
    let dyadic = src.cfg("dyadic", 0, 1, |r| r.chance(3, 5) as i64) == 1;
    let len = src.cfg("src_len", -1, 5000, |r| match r.below(16) {
        0 | 1 => -1,
        2 | 3 => r.range(0, 2),
        4 => r.range(200, 5000),
        _ => r.range(0, 60),
    });
    let mut len = if len < 0 { None } else { Some(len as u64) };
    let long = src.cfg("long_run", 0, 1, |r| r.chance(1, 60) as i64) == 1;
    let steps = src.cfg("steps", 0, 4000, |r| if long { r.range(1000, 4000) } else { r.range(1, 120) }) as usize;
    if long {
        obs.probe(P_LONG_RUN);
    }
    let r0 = i2f(src.cfg("ratio0", i64::MIN, i64::MAX, |r| f2i(if dyadic { dyadic_ratio(r) } else { free_ratio(r) })));
    let r0 = if r0.is_finite() && r0 >= 1.0 / 1024.0 && r0 <= 64.0 { r0 } else { 1.0 };
    let r0 = if dyadic && (to_q64(r0) & ((1u128 << (Q - 10)) - 1)) != 0 { 1.0 } else { r0 };
    let ctor = src.cfg("ctor", 0, 2, |r| r.range(0, 2));
    let ctl_id = src.cfg("ctl_id", 0, 1 << 20, |r| r.range(0, 1 << 20)) as u32 & !1 | (!dyadic) as u32;
    let ctl_len = src.cfg("ctl_len", -1, 200, |r| if r.chance(1, 2) { -1 } else { r.range(0, 200) });
    let ctl_len = if ctl_len < 0 { None } else { Some(ctl_len as u64) };
    let drain_first = src.cfg("drain_first", 0, 1, |r| (len.is_some() && !mul_hz && r.chance(1, 4)) as i64) == 1;
    let cloneable = src.cfg("cloneable_interp", 0, 1, |r| (!mul_hz && r.chance(1, 3)) as i64) == 1 && !mul_hz;
    // (a sixth of the runs: source frames made of the format's edge values — minimum, maximum, around
    // equilibrium, powers of two — which interpolation between neighbours never takes out of range)
    let edge = src.cfg("edge_values", 0, 1, |r| r.chance(1, 6) as i64) == 1;
    let id = (1u32 + 16) | if edge { crate::adframe::EDGE_BIT } else { 0 }; // otherwise amplitude < 1/2 of full scale
    let (mut source, pulls): (ProbeSignal<F>, Pulls) = ProbeSignal::with(id, len, crate::adframe::any_leaf::<F> as fn(u32, u64) -> F);
    // prime the interpolator from the source, as documented
    let prime = if linear { 2 } else { 1 };
    if matches!(len, Some(l) if l < prime) {
        obs.fault(F_EOF_DURING_PRIMING);
    }
    let a = source.next();
    // method used by the constructor decides the effective initial ratio
    let ctor = if dyadic && ctor == 2 && r0.log2().fract() != 0.0 { 1 } else { ctor };
    let mut m = Model {
        p: 0,
        p_prev: 0,
        n: 0,
        ratio: effective(ctor, r0),
        prime,
        len,
        linear,
        dyadic,
    };
    let (ctl, ctl_pulls) = ProbeSignal::<f64>::with(ctl_id, ctl_len, ctl_ratio as fn(u32, u64) -> f64);
    let mut sut: Option<Sut<F>> = Some(if linear {
        let b = source.next();
        let interp = Linear::new(a, b);
        if mul_hz {
            Sut::LinearMul(source.mul_hz(interp, ctl))
        } else if cloneable {
            let interp = CLinear::new(a, b);
            Sut::LinearClone(match ctor {
                0 => source.scale_hz(interp, r0),
                1 => source.from_hz_to_hz(interp, r0 * 48_000.0, 48_000.0),
                _ => Converter::scale_sample_hz(source, interp, 1.0 / r0),
            })
        } else {
            Sut::LinearDirect(match ctor {
                0 => source.scale_hz(interp, r0),
                1 => source.from_hz_to_hz(interp, r0 * 48_000.0, 48_000.0),
                _ => Converter::scale_sample_hz(source, interp, 1.0 / r0),
            })
        }
    } else {
        let interp = Floor::new(a);
        if mul_hz {
            Sut::FloorMul(source.mul_hz(interp, ctl))
        } else if cloneable {
            let interp = CFloor::new(a);
            Sut::FloorClone(match ctor {
                0 => source.scale_hz(interp, r0),
                1 => source.from_hz_to_hz(interp, r0 * 48_000.0, 48_000.0),
                _ => Converter::scale_sample_hz(source, interp, 1.0 / r0),
            })
        } else {
            Sut::FloorDirect(match ctor {
                0 => source.scale_hz(interp, r0),
                1 => source.from_hz_to_hz(interp, r0 * 48_000.0, 48_000.0),
                _ => Converter::scale_sample_hz(source, interp, 1.0 / r0),
            })
        }
    });
    check_eq!(obs, pulls.get(), prime, "converter.priming-pulls", "source pulls after priming");

    let mut done = 0usize;
    loop {
        let op = src.next_op(|r| {
            if done >= steps {
                return None;
            }
            if drain_first && done == 0 {
                return Some(Op::k(O_DRAIN));
            }
            let w = [40u32, if mul_hz { 0 } else { 8 }, 4, if len.is_some() && !mul_hz { 2 } else { 0 }, if mul_hz { 0 } else { 1 }, if cloneable { 5 } else { 0 }, if len.is_some() && !mul_hz { 3 } else { 0 }];
            Some(match r.weighted(&w) as u8 {
                O_EXTEND_SOURCE => Op::ka(O_EXTEND_SOURCE, r.range(1, 12)),
                O_SET => {
                    let v = if dyadic { dyadic_ratio(r) } else { free_ratio(r) };
                    let mut method = r.range(0, 2);
                    if dyadic && method == 2 && v.log2().fract() != 0.0 {
                        method = 0;
                    }
                    Op::kab(O_SET, f2i(v), method)
                }
                k => Op::k(k),
            })
        });
        let Some(op) = op else { break };
        done += 1;
        let s = sut.as_mut().unwrap();
        match op.k {
            O_SET => {
                let v = i2f(op.a);
                let method = op.b.clamp(0, 2);
                let legal = !mul_hz
                    && v.is_finite()
                    && v >= 1.0 / 1024.0
                    && v <= 64.0
                    && !(dyadic && (to_q64(v) & ((1u128 << (Q - 10)) - 1)) != 0)
                    && !(dyadic && method == 2 && v.log2().fract() != 0.0);
                if !legal {
                    src.skip_last();
                    obs.skipped();
                    continue;
                }
                obs.tick(op.k);
                obs.note(op.a as u64 ^ method as u64);
                obs.fault(F_RATIO_CHANGE);
                if m.n == 0 {
                    obs.fault(F_RATIO_CHANGE_BEFORE_FIRST);
                }
                s.set(method, v);
                m.ratio = effective(method, v);
            }
            O_PROBE | O_NEXT => {
                obs.tick(op.k);
                if m.n > 0 {
                    obs.inflight();
                }
                // exhaustion before output n: the source has handed out everything it had and
                // producing the next output needs a further frame
                let ctl_exh = mul_hz && matches!(ctl_len, Some(l) if m.n >= l);
                {
                    let (alo, ahi) = m.floor_lo_hi(m.p_prev);
                    let (blo, bhi) = m.floor_lo_hi(m.p);
                    let unambiguous = alo == ahi && blo == bhi;
                    if unambiguous {
                        let conv_exh = m.src_exhausted_after(alo) && blo > alo;
                        check_eq!(
                            obs,
                            s.is_exhausted(),
                            conv_exh || ctl_exh,
                            "converter.exhausted",
                            "is_exhausted() before output {} (pulled {}, needs {}, source len {:?}, control exhausted {})",
                            m.n,
                            alo,
                            blo,
                            m.len,
                            ctl_exh
                        );
                        if conv_exh || ctl_exh {
                            obs.fault(F_OVERRUN);
                        }
                    } else {
                        obs.probe(P_AMBIGUOUS_BOUNDARY);
                    }
                }
                if op.k == O_PROBE {
                    if let Some(views) = s.source_views() {
                        let want = matches!(m.len, Some(l) if pulls.get() >= l);
                        check_eq!(obs, views, (want, want), "converter.source-views", "source().is_exhausted() / source_mut().is_exhausted() after {} source pulls (length {:?})", pulls.get(), m.len);
                    }
                    continue;
                }
                if ctl_exh {
                    // the control stream has ended: the ratio would be 0, outside the property
                    obs.fault(F_CONTROL_EOF);
                    src.skip_last();
                    continue;
                }
                if mul_hz {
                    m.ratio = ctl_ratio(ctl_id, m.n);
                }
                let got = s.next();
                obs.note(got.bits());
                let (klo, khi) = m.floor_lo_hi(m.p);
                let pulled = pulls.get();
                check!(
                    obs,
                    pulled >= m.prime + klo && pulled <= m.prime + khi,
                    "converter.source-pulls",
                    "after output {} at position {} the source was pulled {} times beyond priming, floor(P) = {}{}",
                    m.n,
                    m.p as f64 / 2f64.powi(Q as i32),
                    pulled - m.prime.min(pulled),
                    klo,
                    if klo != khi { format!("..{}", khi) } else { String::new() }
                );
                if mul_hz {
                    check_eq!(obs, ctl_pulls.get(), m.n + 1, "converter.control-pulls", "control frames pulled after output {}", m.n);
                }
                check_output::<F>(&m, id, m.p, got, obs)?;
                if m.p & ((1u128 << Q) - 1) == 0 && m.n > 0 {
                    obs.probe(P_EXACT_INTEGER_POSITION);
                }
                let before = (m.p >> Q) as u64;
                if m.ratio == 1.0 {
                    obs.probe(P_RATIO_ONE);
                }
                if m.ratio >= 2.0 {
                    obs.fault(F_BURST);
                }
                if m.ratio <= 0.25 {
                    obs.fault(F_CRAWL);
                }
                m.p_prev = m.p;
                m.p += to_q64(m.ratio);
                m.n += 1;
                let after = (m.p >> Q) as u64;
                if after - before >= 2 {
                    obs.probe(P_MULTI_PULL);
                }
                if let Some(l) = m.len {
                    if m.prime + before < l && m.prime + after >= l {
                        obs.fault(F_EOF);
                    }
                }
                let ratio_class = if m.ratio < 1.0 { 0u64 } else if m.ratio == 1.0 { 1 } else if m.ratio < 2.0 { 2 } else { 3 };
                let abs = linear as u64
                    | (mul_hz as u64) << 1
                    | (dyadic as u64) << 2
                    | (m.src_exhausted_after(before) as u64) << 3
                    | ((m.p >> (Q - 2)) as u64 & 3) << 4
                    | ratio_class << 6
                    | (after - before).min(3) << 8
                    | ((m.p & ((1u128 << Q) - 1) == 0) as u64) << 10;
                obs.state(abs, op.k);
            }
            O_DRAIN => {
                // (a drain that would take more than ~150k outputs is not worth the time: skipped)
                let too_long = len.map(|l| (l as f64 + 2.0) / m.ratio > 150_000.0).unwrap_or(true);
                if mul_hz || len.is_none() || too_long {
                    src.skip_last();
                    obs.skipped();
                    continue;
                }
                obs.tick(op.k);
                let fresh = m.n == 0;
                let taken = sut.take().unwrap();
                let got: Vec<F> = match taken {
                    Sut::FloorDirect(c) => c.until_exhausted().take(400_000).collect(),
                    Sut::LinearDirect(c) => c.until_exhausted().take(400_000).collect(),
                    Sut::FloorClone(c) => c.until_exhausted().take(400_000).collect(),
                    Sut::LinearClone(c) => c.until_exhausted().take(400_000).collect(),
                    _ => unreachable!(),
                };
                // model: step until exhausted
                let mut count = 0u64;
                let mut ambiguous = false;
                loop {
                    let (alo, ahi) = m.floor_lo_hi(m.p_prev);
                    let (blo, bhi) = m.floor_lo_hi(m.p);
                    if alo != ahi || blo != bhi {
                        ambiguous = true;
                        break;
                    }
                    if m.src_exhausted_after(alo) && blo > alo {
                        break;
                    }
                    if (count as usize) < got.len() {
                        check_output::<F>(&m, id, m.p, got[count as usize], obs)?;
                    }
                    m.p_prev = m.p;
                    m.p += to_q64(m.ratio);
                    m.n += 1;
                    count += 1;
                    if count > 300_000 {
                        break;
                    }
                }
                if ambiguous {
                    obs.probe(P_AMBIGUOUS_BOUNDARY);
                } else {
                    check_eq!(obs, got.len() as u64, count, "converter.drain-count", "outputs before exhaustion at constant ratio {}", m.ratio);
                    if fresh {
                        // closed form of the property: ceil((R+1)/r) or one more
                        let r_left = len.unwrap().saturating_sub(prime);
                        let q = to_q64(m.ratio);
                        let need = ((r_left + 1) as u128) << Q;
                        let c = ((need + q - 1) / q) as u64;
                        check!(
                            obs,
                            count == c || count == c + 1,
                            "converter.drain-formula",
                            "R = {} frames left after priming, ratio {}: {} outputs, ceil((R+1)/r) = {}",
                            r_left,
                            m.ratio,
                            count,
                            c
                        );
                        obs.probe(if count == c { P_DRAIN_FORMULA_EXACT } else { P_DRAIN_FORMULA_PLUS_ONE });
                    }
                }
                obs.fault(F_EOF);
                return Ok(());
            }
            O_EXTEND_SOURCE => {
                // the source is refilled at the very moment it has handed out its last frame (no equilibrium
                // frame has been pulled from it yet): exhaustion is not permanent
                let k = op.a.clamp(1, 64) as u64;
                let exactly_drained = matches!(len, Some(l) if pulls.get() == l);
                if mul_hz || !exactly_drained || !s.extend_source(k) {
                    src.skip_last();
                    obs.skipped();
                    continue;
                }
                obs.tick(op.k);
                obs.fault(F_SOURCE_REFILLED);
                len = len.map(|l| l + k);
                m.len = len;
            }
            O_CLONE_SWAP => {
                // the model does not move: the clone must stand where the original stood
                if !s.clone_swap() {
                    src.skip_last();
                    obs.skipped();
                    continue;
                }
                obs.tick(op.k);
                obs.fault(F_CLONE_SWAP);
                if m.p & ((1u128 << Q) - 1) != 0 {
                    obs.probe(P_CLONE_MID_INTERVAL);
                }
            }
            O_INTO_SOURCE => {
                if mul_hz {
                    src.skip_last();
                    obs.skipped();
                    continue;
                }
                obs.tick(op.k);
                // hand the source back: it must stand exactly behind the last frame the converter consumed
                let taken = sut.take().unwrap();
                let mut back = match taken {
                    Sut::FloorDirect(c) => c.into_source(),
                    Sut::LinearDirect(c) => c.into_source(),
                    Sut::FloorClone(c) => c.into_source(),
                    Sut::LinearClone(c) => c.into_source(),
                    _ => unreachable!(),
                };
                let (klo, khi) = m.floor_lo_hi(m.p_prev);
                let f = back.next();
                let ok = (klo..=khi).any(|k| f == src_frame::<F>(id, len, m.prime + k));
                check!(
                    obs,
                    ok,
                    "converter.source-position",
                    "after {} outputs (position {}) into_source() resumes with {:?}, expected source frame {}",
                    m.n,
                    m.p_prev as f64 / 2f64.powi(Q as i32),
                    f,
                    m.prime + klo
                );
                return Ok(());
            }
            _ => {
                src.skip_last();
                obs.skipped();
            }
        }
    }
    Ok(())
}

impl Scenario for ConverterScenario {
    fn name(&self) -> &'static str {
        "converter"
    }
    fn property(&self) -> &'static str {
        "C08"
    }
    fn ops(&self) -> &'static [OpSpec] {
        &OPS
    }
    fn faults(&self) -> &'static [&'static str] {
        &[
            "ratio changed between outputs",
            "burst: ratio >= 2 (several source frames per output)",
            "crawl: ratio <= 1/4 (several outputs per source frame)",
            "source end-of-stream crossed",
            "source ends during interpolator priming",
            "next() after the converter reported exhaustion",
            "mul_hz control stream ended",
            "ratio changed before the first output",
            "converter replaced by its clone mid-stream (cloneable interpolator wrapper)",
            "finite source refilled through source_mut() right after its last frame was consumed",
        ]
    }
    fn probes(&self) -> &'static [&'static str] {
        &[
            "output exactly on a source frame (integer position, n > 0)",
            "position within accumulated float slack of an integer (both neighbours accepted)",
            "one output consumed >= 2 source frames",
            "ratio exactly 1",
            "drain count = ceil((R+1)/r) + 1",
            "drain count = ceil((R+1)/r)",
            "integer sample format",
            "long run (>= 1000 outputs)",
            "clone taken at a fractional position",
        ]
    }
    fn rule(&self) -> &'static str {
        "case = (format of 7, floor/linear, direct setters or mul_hz control signal, dyadic (all arithmetic exact) or free ratio regime, \
         source length incl. shorter than priming, constructor, seeded next / set_ratio(3 methods) / is_exhausted / drain schedule); \
         non-trivial = at least one fault kind fired and at least one operation after the first output; distinct = hash of (ops, frames)"
    }
    fn real(&self) -> &'static [&'static str] {
        &[
            "dasp_signal::interpolate::Converter (constructors, setters, next, is_exhausted)",
            "dasp_signal::MulHz, Signal::{mul_hz, from_hz_to_hz, scale_hz}",
            "dasp_interpolate::{floor::Floor, linear::Linear}",
        ]
    }
    fn stubs(&self) -> &'static [&'static str] {
        &["ProbeSignal source and control signal", "exact 128-bit fixed-point position model"]
    }
    fn assumptions(&self) -> &'static [&'static str] {
        &[
            "ratios in [2^-10, 64]; dyadic regime: multiples of 2^-10 (all accumulator arithmetic exact: strict equality of pull counts, of floor outputs and of outputs at integer positions; a linear blend at a fractional position within 4 ulp / 1 LSB, as the property says 'up to float rounding')",
            "free regime: a position within n*2^-46 of an integer accepts both neighbouring pull counts (the accumulator is f64)",
            "after the mul_hz control stream ends the ratio would be 0 (outside ratio > 0): no further outputs are requested",
        ]
    }
    fn runs(&self, tier: &str) -> u64 {
        if tier == "quick" {
            700_000
        } else {
            30_000_000
        }
    }
    fn run(&self, src: &mut Source, obs: &mut Observer) -> Result<(), Violation> {
        let fmt = src.cfg("frame", 0, 14, |r| r.range(0, 14));
        obs.note(fmt as u64);
        match fmt {
            0 => drive::<f64>(src, obs),
            1 => drive::<f32>(src, obs),
            2 => drive::<[f32; 2]>(src, obs),
            3 => drive::<i16>(src, obs),
            4 => drive::<[i32; 2]>(src, obs),
            5 => drive::<u8>(src, obs),
            6 => drive::<i64>(src, obs),
            // (every remaining sample type, so that each f64 <-> sample conversion pair is on a linear path)
            7 => drive::<u16>(src, obs),
            8 => drive::<[u32; 2]>(src, obs),
            9 => drive::<u64>(src, obs),
            10 => drive::<[i8; 2]>(src, obs),
            11 => drive::<dasp_sample::types::I24>(src, obs),
            12 => drive::<[dasp_sample::types::U24; 2]>(src, obs),
            13 => drive::<dasp_sample::types::I48>(src, obs),
            _ => drive::<[dasp_sample::types::U48; 2]>(src, obs),
        }
    }
}
