//! C18 — sinc interpolation is transparent on the sample grid, linear and finite.
//!
//! Histories of next_source_frame / interpolate / reset on lock-stepped instances (inputs a, b and
//! alpha*a + beta*b: superposition as a cross-instance invariant; a constant-input instance; a fresh
//! twin after every reset), directly and through the real Converter over a finite probe source.

use crate::adframe::AdFrame;
use crate::probe::ProbeSignal;
use dasp_interpolate::sinc::Sinc;
use dasp_interpolate::Interpolator;
use dasp_ring_buffer::Fixed;
use dasp_sample::Duplex;
use dasp_signal::interpolate::Converter;
use dasp_signal::Signal;
use simcore::{check, check_eq, f2i, i2f, Observer, Op, OpSpec, Rng, Scenario, Source, Violation};

pub struct SincScenario;

const O_FEED: u8 = 0; // a = code of a_k, b = code of b_k
const O_INTERP: u8 = 1; // a = bits of x
const O_RESET: u8 = 2;
const O_CONV_NEXT: u8 = 3;

static OPS: [OpSpec; 4] = [
    OpSpec { name: "next_source_frame", shrink: 0 },
    OpSpec { name: "interpolate", shrink: 0 },
    OpSpec { name: "reset", shrink: 0 },
    OpSpec { name: "converter_next", shrink: 0 },
];

const F_RESET: usize = 0;
const F_RESET_DURING_PRIMING: usize = 1;
const F_PRIMING_READ: usize = 2;
const F_EOF: usize = 3;
const F_RECOVERED_FIRST: usize = 4;
const F_FRACTION_EDGE: usize = 5;

const P_DEPTH1: usize = 0;
const P_DEPTH32: usize = 1;
const P_PRIMED_CONST: usize = 2;
const P_TRANSPARENCY_CHECKED: usize = 3;
const P_LINEARITY_CHECKED: usize = 4;
const P_INTEGER_FORMAT: usize = 5;
const P_TWIN_AFTER_RESET: usize = 6;

fn fmt_eps<F: AdFrame>() -> f64 {
    if !F::IS_FLOAT {
        0.0
    } else if F::NAME.contains("f32") {
        f32::EPSILON as f64
    } else {
        f64::EPSILON
    }
}

fn val(code: i64, ch: usize, amp: f64) -> f64 {
    // dyadic-ish values in [-amp, amp]
    let k = (code + 37 * ch as i64).rem_euclid(257) - 128;
    amp * k as f64 / 128.0
}

fn draw_x(r: &mut Rng) -> f64 {
    match r.below(8) {
        0 => 0.0,
        1 => 1e-300,
        2 => f64::EPSILON,
        3 => 0.5,
        4 => 1.0 - f64::EPSILON / 2.0,
        _ => r.unit(),
    }
}

fn mk<F: AdFrame>(depth: usize, first: usize) -> Sinc<Vec<F>>
where
    F::Sample: Duplex<f64>,
{
    Sinc::new(Fixed::from_raw_parts(first % (2 * depth), vec![F::EQUILIBRIUM; 2 * depth]))
}

fn finite<F: AdFrame>(f: F) -> bool {
    f.to_f64s().iter().all(|v| v.is_finite())
}

fn direct<F: AdFrame>(depth: usize, first: usize, src: &mut Source, obs: &mut Observer) -> Result<(), Violation>
where
    F::Sample: Duplex<f64>,
{
    let chans = F::CHANNELS;
    // float formats have no full scale: rarely drive them far beyond 1.0 (linearity must not depend on magnitude)
    // (class 4: amplitudes in the float type's subnormal range, where products round on an absolute grid)
    let amp_class = src.cfg("amp_class", 0, 4, |r| if r.chance(1, 7) { r.range(1, 4) } else { 0 });
    let subnormal = if fmt_eps::<F>() > 1e-10 { 7.3e-40 } else { 1.0e-310 };
    let amp = if F::IS_FLOAT { [1.0, 1.0e3, 1.0e6, 1.0e-6, subnormal][amp_class as usize] } else { 0.12 };
    // absolute spacing of the float type's subnormals (each tap product is rounded to it once)
    let spacing = if !F::IS_FLOAT { 0.0 } else if fmt_eps::<F>() > 1e-10 { 1.5e-45 } else { 5e-324 };
    let steps = src.cfg("steps", 1, 3000, |r| if r.chance(1, 40) { r.range(600, 3000) } else { r.range(1, 300) }) as usize;
    let alpha = [0.5, -0.25, 2.0, 1.0, -1.0, 0.125][src.cfg("alpha", 0, 5, |r| r.range(0, 5)) as usize];
    let beta = [0.5, 0.75, -3.0, 1.0, 0.0, -0.5][src.cfg("beta", 0, 5, |r| r.range(0, 5)) as usize];
    let cval = val(src.cfg("const", 0, 256, |r| r.range(0, 256)), 0, amp);
    let linear_ok = F::IS_FLOAT;
    let mut sa = mk::<F>(depth, first);
    let mut sb = mk::<F>(depth, first);
    let mut sc = mk::<F>(depth, first);
    let mut sd = mk::<F>(depth, first);
    // a bystander of another depth, fed the same frames as `a` and evaluated at the same position right
    // before the others: instances must not influence one another
    let by_depth = depth + 12;
    let mut bystander = mk::<F>(by_depth, 0);
    let mut twin: Option<Sinc<Vec<F>>> = None;
    let mut hist: Vec<Vec<f64>> = Vec::new(); // frames fed to A since the last reset
    let mut peak_a = 0.0f64;
    let mut peak_b = 0.0f64;
    let mut const_feeds = 0usize;
    let mut done = 0;
    // input shape "one loud frame, then a long stretch ~1e-9 times quieter" (float formats): anything that
    // tracks signal energy incrementally loses the quiet frames to cancellation
    let mut quiet_left = 0i64;
    loop {
        let fed = hist.len();
        let op = src.next_op(|r| {
            if done >= steps {
                return None;
            }
            if quiet_left > 0 {
                quiet_left -= 1;
                return Some(if r.chance(1, 6) { Op::ka(O_INTERP, f2i(draw_x(r))) } else { Op::new(O_FEED, r.range(0, 256), r.range(0, 256), 1) });
            }
            if F::IS_FLOAT && r.chance(1, 60) {
                quiet_left = 3 * depth as i64 + r.range(0, 8);
                return Some(Op::new(O_FEED, 0, 0, 2));
            }
            Some(match r.below(20) {
                0 => Op::k(O_RESET),
                1..=8 => Op::ka(O_INTERP, f2i(draw_x(r))),
                _ => Op::kab(O_FEED, r.range(0, 256), r.range(0, 256)),
            })
        });
        let Some(op) = op else { break };
        done += 1;
        match op.k {
            O_FEED => {
                obs.tick(op.k);
                if fed > 0 {
                    obs.inflight();
                }
                // c = 1: a frame ~1e-9 times quieter than usual; c = 2: a full-amplitude frame
                let scale = if !F::IS_FLOAT { 1.0 } else if op.c == 1 { 3.0e-9 } else { 1.0 };
                let a: Vec<f64> = (0..chans).map(|ch| if op.c == 2 { amp } else { (val(op.a, ch, amp) + amp * 0.01) * scale }).collect();
                let b: Vec<f64> = (0..chans).map(|ch| val(op.b, ch, amp) * scale).collect();
                let c: Vec<f64> = a.iter().zip(b.iter()).map(|(a, b)| alpha * a + beta * b).collect();
                let fa = F::from_f64s(&a);
                sa.next_source_frame(fa);
                bystander.next_source_frame(fa);
                sb.next_source_frame(F::from_f64s(&b));
                if linear_ok {
                    sc.next_source_frame(F::from_f64s(&c));
                }
                sd.next_source_frame(F::from_f64s(&vec![cval; chans]));
                if let Some(t) = twin.as_mut() {
                    t.next_source_frame(fa);
                }
                // what A really received (after the format conversion)
                hist.push(fa.to_f64s());
                for ch in 0..chans {
                    peak_a = peak_a.max(a[ch].abs());
                    peak_b = peak_b.max(b[ch].abs());
                }
                const_feeds += 1;
            }
            O_INTERP => {
                let x = i2f(op.a);
                if !(x.is_finite() && (0.0..1.0).contains(&x)) {
                    src.skip_last();
                    obs.skipped();
                    continue;
                }
                obs.tick(op.k);
                obs.note(op.a as u64);
                if fed > 0 {
                    obs.inflight();
                }
                if fed < depth {
                    obs.fault(F_PRIMING_READ);
                }
                if x == 0.0 || x >= 1.0 - f64::EPSILON || x < 1e-100 {
                    obs.fault(F_FRACTION_EDGE);
                }
                let oby = bystander.interpolate(x);
                let oa = sa.interpolate(x);
                let ob = sb.interpolate(x);
                let od = sd.interpolate(x);
                check!(obs, finite(oby), "sinc.finite", "interpolate({}) of the depth-{} bystander is not finite", x, by_depth);
                obs.note(oa.bits());
                check!(obs, finite(oa) && finite(ob) && finite(od), "sinc.finite", "interpolate({}) after {} frames (depth {}) is not finite: {:?}", x, fed, depth, oa);
                let ga = oa.to_f64s();
                // transparency on the sample grid
                if x == 0.0 {
                    obs.probe(P_TRANSPARENCY_CHECKED);
                    // after `fed` frames interpolate(0) reads frames[min(fed, depth)]; with a ring of
                    // 2*depth that is the frame fed (2*depth - 1 - idx) frames before the newest
                    let idx = fed.min(depth);
                    let back = 2 * depth - 1 - idx;
                    for ch in 0..chans {
                        let want = if fed > back { hist[fed - 1 - back][ch] } else { 0.0 };
                        let tol = peak_a.max(1e-300) * (1e-12 + 2.0 * fmt_eps::<F>()) + 2.0 * depth as f64 * spacing;
                        check!(
                            obs,
                            (ga[ch] - want).abs() <= tol,
                            "sinc.transparent",
                            "interpolate(0) after {} frames at depth {}: channel {} is {}, the frame fed {} frames earlier is {}",
                            fed,
                            depth,
                            ch,
                            ga[ch],
                            back + 1,
                            want
                        );
                    }
                }
                // superposition
                if linear_ok {
                    obs.probe(P_LINEARITY_CHECKED);
                    let oc = sc.interpolate(x);
                    check!(obs, finite(oc), "sinc.finite", "interpolate({}) of the combined input is not finite", x);
                    let gb = ob.to_f64s();
                    let gc = oc.to_f64s();
                    let scale = alpha.abs() * peak_a + beta.abs() * peak_b;
                    let tol = (1e-12 + 16.0 * fmt_eps::<F>()) * depth as f64 * scale + 1e-300 + 4.0 * depth as f64 * spacing * (alpha.abs() + beta.abs() + 1.0);
                    for ch in 0..chans {
                        let lin = alpha * ga[ch] + beta * gb[ch];
                        check!(
                            obs,
                            (gc[ch] - lin).abs() <= tol,
                            "sinc.linear",
                            "interpolate({}) depth {}: response to {}*a + {}*b is {}, {}*resp(a) + {}*resp(b) is {} (tolerance {:e})",
                            x,
                            depth,
                            alpha,
                            beta,
                            gc[ch],
                            alpha,
                            beta,
                            lin,
                            tol
                        );
                    }
                }
                // constant input once primed
                if depth >= 4 && const_feeds >= 2 * depth {
                    obs.probe(P_PRIMED_CONST);
                    let gd = od.to_f64s();
                    for ch in 0..chans {
                        check!(
                            obs,
                            (gd[ch] - cval_conv::<F>(cval)).abs() <= 0.01 * cval.abs() + (2 * depth + 1) as f64 * F::lsb_f64(),
                            "sinc.constant",
                            "constant input {} primed at depth {}: interpolate({}) = {}",
                            cval,
                            depth,
                            x,
                            gd[ch]
                        );
                    }
                }
                // reset returned the interpolator to its initial state: the fresh twin agrees
                if let Some(t) = twin.as_ref() {
                    obs.probe(P_TWIN_AFTER_RESET);
                    let ot = t.interpolate(x);
                    check_eq!(obs, ot.bits(), oa.bits(), "sinc.reset-state", "after reset() + {} frames interpolate({}) differs from a fresh interpolator", fed, x);
                }
            }
            O_RESET => {
                obs.tick(op.k);
                obs.fault(F_RESET);
                if fed < depth {
                    obs.fault(F_RESET_DURING_PRIMING);
                }
                sa.reset();
                sb.reset();
                sc.reset();
                sd.reset();
                hist.clear();
                const_feeds = 0;
                twin = Some(mk::<F>(depth, 0));
                // silent initial state
                let o = sa.interpolate(0.5);
                check!(obs, o == F::eq_ref(), "sinc.reset-silent", "interpolate(0.5) right after reset() is {:?}", o);
            }
            _ => {
                src.skip_last();
                obs.skipped();
                continue;
            }
        }
        obs.state((depth as u64) << 16 | (hist.len().min(2 * depth + 1) as u64) << 4 | twin.is_some() as u64, op.k);
    }
    Ok(())
}

fn cval_conv<F: AdFrame>(c: f64) -> f64 {
    F::from_f64s(&vec![c; F::CHANNELS]).to_f64s()[0]
}

fn through_converter<F: AdFrame>(depth: usize, first: usize, src: &mut Source, obs: &mut Observer) -> Result<(), Violation>
where
    F::Sample: Duplex<f64>,
{
    let chans = F::CHANNELS;
    let len = src.cfg("src_len", 0, 3000, |r| if r.chance(1, 30) { r.range(300, 3000) } else { r.range(0, 120) }) as u64;
    let steps = src.cfg("steps", 1, 3000, |r| if r.chance(1, 40) { r.range(600, 3000) } else { r.range(1, 300) }) as u64;
    let ratio_k = src.cfg("ratio_num", 1, 64, |r| if r.chance(2, 3) { 8 } else { r.range(1, 64) });
    let ratio = ratio_k as f64 / 8.0; // dyadic: the accumulator arithmetic is exact
    let id = 2 + 16 * if F::IS_FLOAT { 1 } else { 3 };
    let (source, pulls) = ProbeSignal::<F>::with(id, Some(len), F::leaf as fn(u32, u64) -> F);
    let mut conv = Converter::scale_playback_hz(source, mk::<F>(depth, first), ratio);
    let peak = 1.0 / if F::IS_FLOAT { 2.0 } else { 8.0 };
    let mut n = 0u64;
    loop {
        let op = src.next_op(|_| if n >= steps { None } else { Some(Op::k(O_CONV_NEXT)) });
        let Some(op) = op else { break };
        if op.k != O_CONV_NEXT {
            src.skip_last();
            obs.skipped();
            continue;
        }
        obs.tick(op.k);
        if n > 0 {
            obs.inflight();
        }
        let got = conv.next();
        obs.note(got.bits());
        check!(obs, finite(got), "sinc.finite", "converter output {} (ratio {}, depth {}) is not finite", n, ratio, depth);
        // source consumption: floor(n * ratio) frames (no priming for sinc)
        let want_pulls = (n * ratio_k as u64) / 8;
        check_eq!(obs, pulls.get(), want_pulls, "sinc.converter-pulls", "source frames pulled before output {} at ratio {}", n, ratio);
        if want_pulls >= len && len > 0 {
            obs.fault(F_EOF);
        }
        if (want_pulls as usize) < depth {
            obs.fault(F_PRIMING_READ);
        }
        if ratio_k == 8 {
            // ratio exactly 1: the source delayed by exactly `depth` frames
            obs.probe(P_TRANSPARENCY_CHECKED);
            let g = got.to_f64s();
            let want: Vec<f64> = if n >= depth as u64 && n - (depth as u64) < len {
                F::leaf(id, n - depth as u64).to_f64s()
            } else {
                vec![0.0; chans]
            };
            for ch in 0..chans {
                check!(
                    obs,
                    (g[ch] - want[ch]).abs() <= peak * (1e-12 + 2.0 * fmt_eps::<F>()),
                    "sinc.transparent",
                    "ratio 1, depth {}: output {} channel {} is {}, source frame {} is {}",
                    depth,
                    n,
                    ch,
                    g[ch],
                    n as i64 - depth as i64,
                    want[ch]
                );
            }
        }
        n += 1;
        obs.state((depth as u64) << 16 | n.min(64), op.k);
    }
    Ok(())
}

fn drive<F: AdFrame>(src: &mut Source, obs: &mut Observer) -> Result<(), Violation>
where
    F::Sample: Duplex<f64>,
{
    if !F::IS_FLOAT {
        obs.probe(P_INTEGER_FORMAT);
    }
    let depth = src.cfg("depth", 1, 70, |r| match r.below(12) {
        0 | 1 => 1,
        2 | 3 => 2,
        4 => 32,
        5 | 6 => r.range(1, 32),
        7 => *r.pick(&[16i64, 17, 31, 33, 63, 64, 65]),
        _ => r.range(1, 8),
    }) as usize;
    let first = src.cfg("rb_first", 0, 139, |r| if r.bool() { 0 } else { r.range(0, 139) }) as usize % (2 * depth);
    let mode = src.cfg("mode", 0, 1, |r| r.chance(1, 3) as i64);
    if depth == 1 {
        obs.probe(P_DEPTH1);
    }
    if depth == 32 {
        obs.probe(P_DEPTH32);
    }
    if first != 0 {
        obs.fault(F_RECOVERED_FIRST);
    }
    obs.note((depth as u64) << 8 | first as u64);
    if mode == 0 {
        direct::<F>(depth, first, src, obs)
    } else {
        through_converter::<F>(depth, first, src, obs)
    }
}

impl Scenario for SincScenario {
    fn name(&self) -> &'static str {
        // (the same scenario is also built against the no_std feature set, see dsim-nostd-signal)
        if cfg!(feature = "nostd") {
            "sinc-nostd"
        } else {
            "sinc"
        }
    }
    fn property(&self) -> &'static str {
        "C18"
    }
    fn ops(&self) -> &'static [OpSpec] {
        &OPS
    }
    fn faults(&self) -> &'static [&'static str] {
        &[
            "reset mid-stream",
            "reset during priming (fewer than depth frames fed)",
            "interpolate while fewer than depth frames have arrived",
            "source end-of-stream (through the converter)",
            "recovered ring buffer (first != 0, all zero)",
            "fractional position at an edge (0, < 1e-100, 1 - ulp)",
        ]
    }
    fn probes(&self) -> &'static [&'static str] {
        &[
            "depth 1",
            "depth 32",
            "constant-input check on a primed buffer (depth >= 4)",
            "transparency checked (x = 0 / ratio 1)",
            "superposition checked",
            "integer sample format",
            "fresh twin compared after reset",
        ]
    }
    fn rule(&self) -> &'static str {
        "case = (format of 5, depth 1..32, ring start offset, direct mode: seeded next_source_frame / interpolate(x) / reset history on four \
         lock-stepped instances, or converter mode: finite probe source at ratio k/8); non-trivial = at least one fault kind fired and at \
         least one operation after the first frame; distinct = hash of (ops, outputs)"
    }
    fn real(&self) -> &'static [&'static str] {
        &["dasp_interpolate::sinc::Sinc (interpolate, next_source_frame, reset)", "dasp_signal::interpolate::Converter driving it", "dasp_ring_buffer::Fixed underneath"]
    }
    fn stubs(&self) -> &'static [&'static str] {
        &["ProbeSignal source", "cross-instance invariants (superposition, fresh twin), history of fed frames"]
    }
    fn assumptions(&self) -> &'static [&'static str] {
        &[
            "integer formats: amplitude <= 0.12 of full scale and only transparency / finiteness / reset are asserted (integer overflow of the kernel sum is outside the property)",
            "tolerances scale with the format: 1e-12 + 2 eps(format) relative to the peak for transparency, (1e-12 + 16 eps) * depth for superposition",
            "integer formats sum 2*depth kernel terms each truncated to the sample format: the 1% constant-input clause allows 2*depth + 1 LSB on top",
        ]
    }
    fn runs(&self, tier: &str) -> u64 {
        // (the no_std twin build of the same scenario runs a third of the budget)
        let div = if cfg!(feature = "nostd") { 3 } else { 1 };
        if tier == "quick" {
            150_000 / div
        } else {
            10_000_000 / div
        }
    }
    fn run(&self, src: &mut Source, obs: &mut Observer) -> Result<(), Violation> {
        let fmt = src.cfg("frame", 0, 9, |r| r.range(0, 9));
        obs.note(fmt as u64);
        match fmt {
            0 => drive::<f64>(src, obs),
            1 => drive::<f32>(src, obs),
            2 => drive::<[f64; 2]>(src, obs),
            3 => drive::<i16>(src, obs),
            4 => drive::<[i32; 2]>(src, obs),
            5 => drive::<[dasp_sample::types::U24; 2]>(src, obs),
            6 => drive::<u32>(src, obs),
            7 => drive::<dasp_sample::types::I48>(src, obs),
            8 => drive::<[u8; 3]>(src, obs),
            _ => drive::<u16>(src, obs),
        }
    }
}
