//! C04 — signal adaptors are pointwise, lock-step, one source frame per output frame.
use crate::tree::{self, Flavor};
use simcore::{Observer, OpSpec, Scenario, Source, Violation};

pub struct AdaptorsScenario;

impl Scenario for AdaptorsScenario {
    fn name(&self) -> &'static str {
        "adaptors"
    }
    fn property(&self) -> &'static str {
        "C04"
    }
    fn ops(&self) -> &'static [OpSpec] {
        &tree::OPS
    }
    fn faults(&self) -> &'static [&'static str] {
        &tree::FAULTS
    }
    fn probes(&self) -> &'static [&'static str] {
        &tree::PROBES
    }
    fn rule(&self) -> &'static str {
        "case = (frame type of 13 for the tree, of 88 more — every sample type mono and stereo, every channel count 3..=32 — for the statically typed stacks, 1..4 primary leaves + signed/gain leaves with drawn kinds and lengths, leaf amplitude, \
         postfix build program of adaptors (depth <= 6, amplitude bound kept in range), seeded pull / is_exhausted / take / \
         rewrap / owner-pull schedule); non-trivial = at least one fault kind fired and at least one pull executed after \
         some leaf had already been advanced; distinct = hash of (ops, frames observed)"
    }
    fn real(&self) -> &'static [&'static str] {
        &[
            "dasp_signal::{Map, ZipMap, AddAmp, MulAmp, ScaleAmp, OffsetAmp, ScaleAmpPerChannel, OffsetAmpPerChannel, ClipAmp, Inspect, Delay, Take, &mut S}",
            "dasp_signal::{from_iter, from_interleaved_samples_iter} under some leaves",
        ]
    }
    fn stubs(&self) -> &'static [&'static str] {
        &["ProbeSignal / ProbeIter leaves, Dyn box for dynamic composition, counted user closures", "reference interpreter over the same tree; its frame operations are restated per channel on the raw sample representation (raw.rs), clip included"]
    }
    fn assumptions(&self) -> &'static [&'static str] {
        &[
            "parameters are drawn so that a conservative amplitude bound stays below 0.9 of full scale (the property speaks about in-range results)",
            "the pointwise functions are those of C01-C03's statements (power-of-two rescale about equilibrium, add through the signed companion, multiply through the float companion with truncation), restated independently in the harness",
        ]
    }
    fn runs(&self, tier: &str) -> u64 {
        if tier == "quick" {
            700_000
        } else {
            30_000_000
        }
    }
    fn run(&self, src: &mut Source, obs: &mut Observer) -> Result<(), Violation> {
        let fmt = src.cfg("frame", 0, 12, |r| r.range(0, 12));
        obs.note(fmt as u64);
        match fmt {
            0 => tree::run_tree::<f32>(Flavor::Adaptors, src, obs),
            1 => tree::run_tree::<f64>(Flavor::Adaptors, src, obs),
            2 => tree::run_tree::<[f32; 2]>(Flavor::Adaptors, src, obs),
            3 => tree::run_tree::<[i16; 2]>(Flavor::Adaptors, src, obs),
            4 => tree::run_tree::<[u8; 3]>(Flavor::Adaptors, src, obs),
            5 => tree::run_tree::<[i32; 1]>(Flavor::Adaptors, src, obs),
            6 => tree::run_tree::<[f64; 8]>(Flavor::Adaptors, src, obs),
            7 => tree::run_tree::<[u16; 32]>(Flavor::Adaptors, src, obs),
            8 => tree::run_tree::<[dasp_sample::types::I24; 2]>(Flavor::Adaptors, src, obs),
            9 => tree::run_tree::<[dasp_sample::types::U48; 2]>(Flavor::Adaptors, src, obs),
            10 => tree::run_tree::<[i8; 4]>(Flavor::Adaptors, src, obs),
            11 => tree::run_tree::<[i32; 12]>(Flavor::Adaptors, src, obs),
            _ => tree::run_tree::<[f32; 9]>(Flavor::Adaptors, src, obs),
        }
    }
}
