//! Independent statement of the sample formats: what the bits of each of the 14 sample types mean
//! (C01/C02: every integer format is a power-of-two rescale about its equilibrium, floats are
//! themselves) and what the two amplitude operations do, written on the raw representation with
//! plain integer / float arithmetic.  The oracles decode observed frames and restate reference
//! operations through this module, so that a slip in `dasp_sample`'s conversion tables or in
//! `dasp_frame`'s per-width code cannot hide on both sides of a comparison.
//!
//! Nothing here calls `to_sample`, `from_sample`, `add_amp`, `mul_amp` or any `Frame` method.
#![allow(dead_code)]

use dasp_sample::types::{I24, I48, U24, U48};
use dasp_sample::Sample;
use std::fmt::Debug;

pub trait Raw: Sample + Copy + Debug + PartialEq {
    /// width of the integer format in bits; 0 for the float formats
    const BITS: u32;
    const UNSIGNED: bool;
    /// the float companion (`Sample::Float`, or the type itself) is f32 rather than f64
    const F32: bool;
    /// integer formats: the stored value
    fn raw(self) -> i128;
    fn from_raw(r: i128) -> Self;
    /// float formats: the value
    fn fv(self) -> f64;
    fn from_fv(v: f64) -> Self;
}

macro_rules! raw_int {
    ($T:ty, $bits:expr, $uns:expr, $f32:expr) => {
        impl Raw for $T {
            const BITS: u32 = $bits;
            const UNSIGNED: bool = $uns;
            const F32: bool = $f32;
            fn raw(self) -> i128 {
                self as i128
            }
            fn from_raw(r: i128) -> Self {
                r as $T
            }
            fn fv(self) -> f64 {
                0.0
            }
            fn from_fv(_: f64) -> Self {
                unreachable!()
            }
        }
    };
}
macro_rules! raw_newtype {
    ($T:ty, $Rep:ty, $bits:expr, $uns:expr, $f32:expr) => {
        impl Raw for $T {
            const BITS: u32 = $bits;
            const UNSIGNED: bool = $uns;
            const F32: bool = $f32;
            fn raw(self) -> i128 {
                self.inner() as i128
            }
            fn from_raw(r: i128) -> Self {
                <$T>::new_unchecked(r as $Rep)
            }
            fn fv(self) -> f64 {
                0.0
            }
            fn from_fv(_: f64) -> Self {
                unreachable!()
            }
        }
    };
}
raw_int!(i8, 8, false, true);
raw_int!(i16, 16, false, true);
raw_int!(i32, 32, false, true);
raw_int!(i64, 64, false, false);
raw_int!(u8, 8, true, true);
raw_int!(u16, 16, true, true);
raw_int!(u32, 32, true, true);
raw_int!(u64, 64, true, false);
raw_newtype!(I24, i32, 24, false, true);
raw_newtype!(U24, i32, 24, true, true);
raw_newtype!(I48, i64, 48, false, false);
raw_newtype!(U48, i64, 48, true, false);
impl Raw for f32 {
    const BITS: u32 = 0;
    const UNSIGNED: bool = false;
    const F32: bool = true;
    fn raw(self) -> i128 {
        0
    }
    fn from_raw(_: i128) -> Self {
        unreachable!()
    }
    fn fv(self) -> f64 {
        self as f64
    }
    fn from_fv(v: f64) -> Self {
        v as f32
    }
}
impl Raw for f64 {
    const BITS: u32 = 0;
    const UNSIGNED: bool = false;
    const F32: bool = false;
    fn raw(self) -> i128 {
        0
    }
    fn from_raw(_: i128) -> Self {
        unreachable!()
    }
    fn fv(self) -> f64 {
        self
    }
    fn from_fv(v: f64) -> Self {
        v
    }
}

pub fn is_float<S: Raw>() -> bool {
    S::BITS == 0
}
fn half<S: Raw>() -> i128 {
    1i128 << (S::BITS - 1)
}
fn offset<S: Raw>() -> i128 {
    if S::UNSIGNED {
        half::<S>()
    } else {
        0
    }
}
/// stored value minus equilibrium
pub fn signed_raw<S: Raw>(s: S) -> i128 {
    s.raw() - offset::<S>()
}
pub fn from_signed_raw<S: Raw>(r: i128) -> S {
    S::from_raw(r + offset::<S>())
}
/// amplitude in [-1, 1) as f64 (exact up to 53 bits; 64-bit formats round once, like `as f64`)
pub fn norm<S: Raw>(s: S) -> f64 {
    if is_float::<S>() {
        s.fv()
    } else {
        signed_raw(s) as f64 / half::<S>() as f64
    }
}
/// what `to_float_sample()` is documented to be, widened to f64: the amplitude rounded once to the
/// float companion
pub fn float_view<S: Raw>(s: S) -> f64 {
    if is_float::<S>() {
        s.fv()
    } else if S::F32 {
        ((signed_raw(s) as f32) / half::<S>() as f32) as f64
    } else {
        signed_raw(s) as f64 / half::<S>() as f64
    }
}
/// the sample whose amplitude is `v`: truncation toward zero of v * 2^(bits-1), as documented
pub fn from_norm<S: Raw>(v: f64) -> S {
    if is_float::<S>() {
        S::from_fv(v)
    } else {
        let scaled = v * half::<S>() as f64;
        let lim = half::<S>();
        from_signed_raw::<S>((scaled as i128).clamp(-lim, lim - 1))
    }
}
/// same, but computed in the float companion's precision from a companion value
fn from_float_companion<S: Raw>(p: f64) -> S {
    // p is exactly representable in the companion type (it came out of companion arithmetic)
    let q: i128 = if S::F32 {
        let x = (p as f32) * half::<S>() as f32;
        x as i128
    } else {
        let x = p * half::<S>() as f64;
        x as i128
    };
    // `as` on the integer representation saturates at the representation's bounds
    let rep_bits = match S::BITS {
        24 => 32,
        48 => 64,
        b => b,
    };
    let lim = 1i128 << (rep_bits - 1);
    from_signed_raw::<S>(q.clamp(-lim, lim - 1))
}

/// `add_amp`: convert to the signed companion (a left shift when it is wider), add, convert back
/// (an arithmetic right shift).
pub fn add_amp_ref<S: Raw>(s: S, amp: S::Signed) -> S
where
    S::Signed: Raw,
{
    if is_float::<S>() {
        if S::F32 {
            S::from_fv(((s.fv() as f32) + (amp.fv() as f32)) as f64)
        } else {
            S::from_fv(s.fv() + amp.fv())
        }
    } else {
        let widen = <S::Signed as Raw>::BITS - S::BITS;
        let sum = (signed_raw(s) << widen) + amp.raw();
        from_signed_raw::<S>(sum >> widen)
    }
}

/// `mul_amp`: convert to the float companion, multiply, convert back (truncation).
pub fn mul_amp_ref<S: Raw>(s: S, g: S::Float) -> S
where
    S::Float: Raw,
{
    if is_float::<S>() {
        if S::F32 {
            S::from_fv(((s.fv() as f32) * (g.fv() as f32)) as f64)
        } else {
            S::from_fv(s.fv() * g.fv())
        }
    } else if S::F32 {
        let p = (float_view(s) as f32) * (g.fv() as f32);
        from_float_companion::<S>(p as f64)
    } else {
        let p = float_view(s) * g.fv();
        from_float_companion::<S>(p)
    }
}

/// `clip_amp`: the signed amplitude limited to [-t, t] (t in the signed companion format).
pub fn clip_ref<S: Raw>(s: S, t: S::Signed) -> S
where
    S::Signed: Raw,
{
    if is_float::<S>() {
        let (x, t) = (s.fv(), t.fv());
        S::from_fv(if x > t {
            t
        } else if x < -t {
            -t
        } else {
            x
        })
    } else {
        let widen = <S::Signed as Raw>::BITS - S::BITS;
        let x = signed_raw(s) << widen;
        let t = t.raw();
        let y = if x > t {
            t
        } else if x < -t {
            -t
        } else {
            x
        };
        from_signed_raw::<S>(y >> widen)
    }
}

/// the signed-companion sample of a sample (for decoding rectifier outputs)
pub fn to_signed_norm<S: Raw>(s: S) -> f64 {
    norm(s)
}

/// Values on the edges of a format: minimum, maximum, around equilibrium, exact powers of two and
/// their neighbours (integer formats: as signed offsets from equilibrium; floats: in [-1, 1]).
pub fn edge_value<S: Raw>(k: u64) -> S {
    if is_float::<S>() {
        let eps = if S::F32 { f32::EPSILON as f64 } else { f64::EPSILON };
        let tiny = if S::F32 { f32::MIN_POSITIVE as f64 } else { f64::MIN_POSITIVE };
        let v = [-1.0, -1.0 + eps, -0.0, 0.0, tiny, 1.0 - eps / 2.0, 1.0, 0.5, -0.5, 0.5 + eps, 1.0 / 1_048_576.0, -0.25, 0.75, -tiny];
        S::from_fv(v[(k % v.len() as u64) as usize])
    } else {
        let h = half::<S>();
        let q = h >> 1;
        let v = [-h, -h + 1, -1, 0, 1, h - 2, h - 1, q, -q, q + 1, q - 1, 3, -(h >> 9), (h >> 3) + 1, -q - 1, 2];
        from_signed_raw::<S>(v[(k % v.len() as u64) as usize])
    }
}
/// the largest signed-companion amplitude (clip threshold that only touches the format's minimum)
pub fn max_value<S: Raw>() -> S {
    if is_float::<S>() {
        S::from_fv(1.0)
    } else {
        from_signed_raw::<S>(half::<S>() - 1)
    }
}
