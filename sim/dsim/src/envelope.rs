//! C19 — rectifiers and envelope follower: |x| and one-pole smoothing without overshoot.
//!
//! Actors: the frame stream and a reconfiguring operator calling set_attack_frames /
//! set_release_frames at drawn instants, on the peak (three rectifiers, from_rectifier) and RMS
//! detectors, directly and through `signal.detect_envelope(..)` over a slot-fed source with EOF.

use dasp_envelope::Detector;
use dasp_frame::Frame;
use dasp_peak as peak;
use dasp_ring_buffer::Fixed;
use dasp_rms::Rms;
use dasp_sample::Sample;
use dasp_signal::envelope::SignalEnvelope;
use dasp_signal::Signal;
use simcore::{check, check_eq, f2i, i2f, Observer, Op, OpSpec, Rng, Scenario, Source, Violation};
use std::cell::Cell;
use std::collections::VecDeque;
use std::fmt::Debug;
use std::rc::Rc;

pub struct EnvelopeScenario;

const O_FRAME: u8 = 0; // a = bits of base amplitude, b = per-channel variation
const O_SET_ATTACK: u8 = 1; // a = bits of frames (f32 as f64)
const O_SET_RELEASE: u8 = 2;
const O_CLONE_SWAP: u8 = 3;

const O_INTO_PARTS: u8 = 4;

static OPS: [OpSpec; 5] = [
    OpSpec { name: "frame", shrink: 0 },
    OpSpec { name: "set_attack_frames", shrink: 0 },
    OpSpec { name: "set_release_frames", shrink: 0 },
    OpSpec { name: "clone_swap", shrink: 0 },
    OpSpec { name: "adaptor_into_parts_then_direct", shrink: 0 },
];

const F_RECONFIGURE: usize = 0;
const F_ZERO_TIME: usize = 1;
const F_HUGE_TIME: usize = 2;
const F_SOURCE_EOF: usize = 3;
const F_SNAPSHOT: usize = 4;
const F_DIRECTION_FLIP: usize = 5;

const P_CONSTANT_STRETCH: usize = 0;
const P_EQUALS_DETECTED: usize = 1;
const P_INTEGER_FORMAT: usize = 2;
const P_ADAPTOR: usize = 3;
const P_RMS_DETECTOR: usize = 4;
const P_BOUNDARY_SAMPLE: usize = 5;
const P_ATTACK_USED: usize = 6;
const P_RELEASE_USED: usize = 7;
const P_CONVERGENCE_HORIZON: usize = 8;
const P_LOUD_FLOAT: usize = 9;

/// Concrete helpers per frame format.
pub trait EnvFrame: Frame + Debug + 'static {
    const NAME: &'static str;
    const IS_FLOAT: bool;
    /// eps of the format's float companion (f32 or f64)
    const FLOAT_EPS: f64;
    /// one LSB of the format in normalised units (0 for floats)
    const LSB: f64;
    fn from_unit(v: &[f64]) -> Self;
    fn unit(self) -> Vec<f64>;
    fn unit_signed(o: Self::Signed) -> Vec<f64>;
    fn unit_float(o: Self::Float) -> Vec<f64>;
    fn float_zero() -> Self::Float;
    /// smallest / largest normalised amplitude whose negation is representable
    fn lo() -> f64;
    fn hi() -> f64;
}

macro_rules! env_frame {
    ($name:expr, $T:ty, $S:ty, $isf:expr, $feps:expr, $lsb:expr, $lo:expr, $hi:expr) => {
        impl EnvFrame for $T {
            const NAME: &'static str = $name;
            const IS_FLOAT: bool = $isf;
            const FLOAT_EPS: f64 = $feps;
            const LSB: f64 = $lsb;
            fn from_unit(v: &[f64]) -> Self {
                <$T as Frame>::from_fn(|ch| v[ch].to_sample::<$S>())
            }
            // (independent decoding of the raw representation, see raw.rs)
            fn unit(self) -> Vec<f64> {
                self.channels().map(|s| crate::raw::norm::<$S>(s)).collect()
            }
            fn unit_signed(o: <$T as Frame>::Signed) -> Vec<f64> {
                o.channels().map(|s| crate::raw::norm::<<$S as Sample>::Signed>(s)).collect()
            }
            fn unit_float(o: <$T as Frame>::Float) -> Vec<f64> {
                o.channels().map(|s| crate::raw::norm::<<$S as Sample>::Float>(s)).collect()
            }
            fn float_zero() -> <$T as Frame>::Float {
                <<$T as Frame>::Float as Frame>::EQUILIBRIUM
            }
            fn lo() -> f64 {
                $lo
            }
            fn hi() -> f64 {
                $hi
            }
        }
    };
}

const E32: f64 = f32::EPSILON as f64;
env_frame!("f32", f32, f32, true, E32, 0.0, -1.0, 1.0);
env_frame!("f64", f64, f64, true, f64::EPSILON, 0.0, -1.0, 1.0);
env_frame!("[f32;2]", [f32; 2], f32, true, E32, 0.0, -1.0, 1.0);
env_frame!("i16", i16, i16, false, E32, 1.0 / 32768.0, -32767.0 / 32768.0, 32767.0 / 32768.0);
env_frame!("[i16;2]", [i16; 2], i16, false, E32, 1.0 / 32768.0, -32767.0 / 32768.0, 32767.0 / 32768.0);
env_frame!("u8", u8, u8, false, E32, 1.0 / 128.0, -127.0 / 128.0, 127.0 / 128.0);
env_frame!("i32", i32, i32, false, E32, 1.0 / 2147483648.0, -0.999_999, 0.999_999);
env_frame!("[f32;9]", [f32; 9], f32, true, E32, 0.0, -1.0, 1.0);
env_frame!("[i16;12]", [i16; 12], i16, false, E32, 1.0 / 32768.0, -32767.0 / 32768.0, 32767.0 / 32768.0);
env_frame!("[f32;40]", [f32; 40], f32, true, E32, 0.0, -1.0, 1.0);
env_frame!("u16", u16, u16, false, E32, 1.0 / 32768.0, -32767.0 / 32768.0, 32767.0 / 32768.0);
env_frame!("[u8;2]", [u8; 2], u8, false, E32, 1.0 / 128.0, -127.0 / 128.0, 127.0 / 128.0);

#[derive(Clone, Copy, PartialEq, Debug)]
enum Kind {
    Full,
    Pos,
    Neg,
    FromRect,
    RmsDet,
}

/// The five detector types behind one interface; outputs are reported in normalised f64 units.
#[derive(Clone)]
enum Sut<F: EnvFrame> {
    Full(Detector<F, dasp_envelope::detect::Peak<peak::FullWave>>),
    Pos(Detector<F, dasp_envelope::detect::Peak<peak::PositiveHalfWave>>),
    Neg(Detector<F, dasp_envelope::detect::Peak<peak::NegativeHalfWave>>),
    Rms(Detector<F, Rms<F, Vec<F::Float>>>),
}

impl<F: EnvFrame> Sut<F> {
    fn next(&mut self, f: F) -> Vec<f64> {
        match self {
            Sut::Full(d) => F::unit_signed(d.next(f)),
            Sut::Pos(d) => d.next(f).unit(),
            Sut::Neg(d) => d.next(f).unit(),
            Sut::Rms(d) => F::unit_float(d.next(f)),
        }
    }
    fn set_attack(&mut self, v: f32) {
        match self {
            Sut::Full(d) => d.set_attack_frames(v),
            Sut::Pos(d) => d.set_attack_frames(v),
            Sut::Neg(d) => d.set_attack_frames(v),
            Sut::Rms(d) => d.set_attack_frames(v),
        }
    }
    fn set_release(&mut self, v: f32) {
        match self {
            Sut::Full(d) => d.set_release_frames(v),
            Sut::Pos(d) => d.set_release_frames(v),
            Sut::Neg(d) => d.set_release_frames(v),
            Sut::Rms(d) => d.set_release_frames(v),
        }
    }
}

/// Slot-fed source for the adaptor mode.
pub struct SlotSignal<F> {
    slot: Rc<Cell<Option<F>>>,
    pulls: Rc<Cell<u64>>,
    end: Option<u64>,
}
impl<F: Frame> Signal for SlotSignal<F> {
    type Frame = F;
    fn next(&mut self) -> F {
        let n = self.pulls.get();
        self.pulls.set(n + 1);
        match self.end {
            Some(e) if n >= e => F::EQUILIBRIUM,
            _ => self.slot.take().unwrap_or(F::EQUILIBRIUM),
        }
    }
    fn is_exhausted(&self) -> bool {
        matches!(self.end, Some(e) if self.pulls.get() >= e)
    }
}

enum Adaptor<F: EnvFrame> {
    Full(dasp_signal::envelope::DetectEnvelope<SlotSignal<F>, dasp_envelope::detect::Peak<peak::FullWave>>),
    Pos(dasp_signal::envelope::DetectEnvelope<SlotSignal<F>, dasp_envelope::detect::Peak<peak::PositiveHalfWave>>),
    Rms(dasp_signal::envelope::DetectEnvelope<SlotSignal<F>, Rms<F, Vec<F::Float>>>),
}

impl<F: EnvFrame> Adaptor<F> {
    fn next(&mut self) -> Vec<f64> {
        match self {
            Adaptor::Full(a) => F::unit_signed(a.next()),
            Adaptor::Pos(a) => a.next().unit(),
            Adaptor::Rms(a) => F::unit_float(a.next()),
        }
    }
    fn is_exhausted(&self) -> bool {
        match self {
            Adaptor::Full(a) => a.is_exhausted(),
            Adaptor::Pos(a) => a.is_exhausted(),
            Adaptor::Rms(a) => a.is_exhausted(),
        }
    }
    fn set_attack(&mut self, v: f32) {
        match self {
            Adaptor::Full(a) => a.set_attack_frames(v),
            Adaptor::Pos(a) => a.set_attack_frames(v),
            Adaptor::Rms(a) => a.set_attack_frames(v),
        }
    }
    fn set_release(&mut self, v: f32) {
        match self {
            Adaptor::Full(a) => a.set_release_frames(v),
            Adaptor::Pos(a) => a.set_release_frames(v),
            Adaptor::Rms(a) => a.set_release_frames(v),
        }
    }
    /// take the adaptor apart: the detector carries on where the adaptor stood
    fn into_detector(self) -> Sut<F> {
        match self {
            Adaptor::Full(a) => Sut::Full(a.into_parts().1),
            Adaptor::Pos(a) => Sut::Pos(a.into_parts().1),
            Adaptor::Rms(a) => Sut::Rms(a.into_parts().1),
        }
    }
}

fn gain(frames: f32) -> f64 {
    if frames == 0.0 {
        0.0
    } else {
        (-1.0 / frames as f64).exp()
    }
}

fn draw_time(r: &mut Rng) -> f32 {
    match r.below(8) {
        // (zero frames, with either sign of zero: -0.0 >= 0 as well)
        0 => {
            if r.bool() {
                0.0
            } else {
                -0.0
            }
        }
        1 => 1e-3,
        2 => 1.0,
        3 => 1e6,
        4 => 0.5,
        _ => (r.unit() * 200.0) as f32,
    }
}

struct Model {
    kind: Kind,
    chans: usize,
    attack: f32,
    release: f32,
    /// previous envelope output per channel (normalised), as produced by the implementation
    env: Vec<f64>,
    /// RMS detector window (float view of the inputs)
    win: Vec<VecDeque<f64>>,
    n: u64,
    last_input: Option<Vec<f64>>,
    last_gap: Vec<f64>,
    last_dir: Vec<i8>,
    /// constant-input stretch: frames so far, gap and time constant when it began (per channel)
    const_n: Vec<u32>,
    const_gap0: Vec<f64>,
    const_frames: Vec<f32>,
    /// frames pushed into the RMS window and the largest square seen (for C11's rigorous bound)
    rms_t: u64,
    rms_max_sq: f64,
    rms_tol: Vec<f64>,
    float_eps: f64,
}

impl Model {
    fn detect(&mut self, x: &[f64]) -> Vec<f64> {
        match self.kind {
            Kind::Full | Kind::FromRect => x.iter().map(|v| v.abs()).collect(),
            Kind::Pos => x.iter().map(|v| v.max(0.0)).collect(),
            Kind::Neg => x.iter().map(|v| v.min(0.0)).collect(),
            Kind::RmsDet => (0..self.chans)
                .map(|ch| {
                    self.win[ch].pop_front();
                    self.win[ch].push_back(x[ch]);
                    if ch == 0 {
                        self.rms_t += 1;
                    }
                    self.rms_max_sq = self.rms_max_sq.max(x[ch] * x[ch]);
                    let n = self.win[ch].len() as f64;
                    let mut sq: Vec<f64> = self.win[ch].iter().map(|v| v * v).collect();
                    sq.sort_by(|a, b| a.partial_cmp(b).unwrap());
                    let ms = sq.iter().sum::<f64>() / n;
                    // the detector's running sum carries a rounding residual bounded as in C11:
                    // |mean square error| <= (2T + N + 2) eps N max_sq / N
                    let delta = (2.0 * self.rms_t as f64 + n + 2.0) * self.float_eps * self.rms_max_sq * (1.0 + self.float_eps);
                    let d = ms.sqrt();
                    // (no_std build: the square root itself is C11's 7% approximation)
                    let (rel, abs) = if cfg!(feature = "nostd") { (0.07, 1e-18) } else { (2.0 * self.float_eps, 0.0) };
                    let hi = (ms + delta).sqrt() * (1.0 + rel) + abs;
                    let lo = (ms - delta).max(0.0).sqrt() * (1.0 - rel) - abs;
                    self.rms_tol[ch] = (hi - d).max(d - lo) + f64::MIN_POSITIVE;
                    d
                })
                .collect(),
        }
    }
}

#[allow(clippy::too_many_arguments)]
fn check_frame<F: EnvFrame>(m: &mut Model, x: &[f64], got: &[f64], out_lsb: f64, out_eps: f64, obs: &mut Observer) -> Result<(), Violation> {
    let d = m.detect(x);
    let constant = m.last_input.as_deref() == Some(x) && m.kind != Kind::RmsDet;
    for ch in 0..m.chans {
        let env = m.env[ch];
        let dv = d[ch];
        let attack_selected = env < dv;
        let frames = if attack_selected { m.attack } else { m.release };
        obs.probe(if attack_selected { P_ATTACK_USED } else { P_RELEASE_USED });
        let g = gain(frames);
        let want = dv + g * (env - dv);
        // detected value tolerance: rectifiers are exact, the RMS detector rounds in its float type
        let d_tol = if m.kind == Kind::RmsDet { m.rms_tol[ch] } else { 0.0 };
        // the gain is an f32 (2 ulp for powf), the three operations round in the output format;
        // integer formats truncate once more through their float companion
        // (plus the absolute spacing of subnormal numbers of the float type)
        let tiny = if F::FLOAT_EPS > 1e-10 { 8.0 * 1.5e-45 } else { 8.0 * 5e-324 };
        // within the detected value's own tolerance of the previous envelope the detector may
        // legitimately have chosen the other time constant
        let ambiguous = (env - dv).abs() <= d_tol;
        let want_other = dv + gain(if attack_selected { m.release } else { m.attack }) * (env - dv);
        let tol = (4.0 * E32 + 2.0 * F::FLOAT_EPS) * (env - dv).abs() + 4.0 * out_eps * (env.abs() + dv.abs()) + 2.0 * out_lsb + d_tol + tiny;
        check!(
            obs,
            got[ch].is_finite() && ((got[ch] - want).abs() <= tol || (ambiguous && (got[ch] - want_other).abs() <= tol)),
            "envelope.one-pole",
            "frame {} channel {}: got {}, detected {} + gain {} ({} = {} frames) x (previous {} - detected) = {} (tolerance {:e}, {:?})",
            m.n,
            ch,
            got[ch],
            dv,
            g,
            if attack_selected { "attack" } else { "release" },
            frames,
            env,
            want,
            tol,
            m.kind
        );
        // never outside the interval between the previous envelope and the detected value
        let lo = env.min(dv);
        let hi = env.max(dv);
        let slack = 2.0 * out_eps * hi.abs().max(lo.abs()) + d_tol + if out_lsb > 0.0 { 0.0 } else { tiny };
        check!(
            obs,
            got[ch] >= lo - slack && got[ch] <= hi + slack,
            "envelope.overshoot",
            "frame {} channel {}: {} lies outside [{}, {}] (previous envelope, detected value)",
            m.n,
            ch,
            got[ch],
            lo,
            hi
        );
        if frames == 0.0 {
            obs.fault(F_ZERO_TIME);
            obs.probe(P_EQUALS_DETECTED);
            check!(
                obs,
                ambiguous || (got[ch] - dv).abs() <= d_tol + out_lsb * 0.0,
                "envelope.zero-time",
                "frame {} channel {}: selected time is 0 but the output {} is not the detected value {}",
                m.n,
                ch,
                got[ch],
                dv
            );
        }
        // monotone convergence on constant-input stretches
        let gap = (got[ch] - dv).abs();
        if constant {
            obs.probe(P_CONSTANT_STRETCH);
            check!(
                obs,
                gap <= m.last_gap[ch] + slack,
                "envelope.monotone",
                "constant input: |envelope - detected| grew from {} to {} on channel {}",
                m.last_gap[ch],
                gap,
                ch
            );
        }
        // bounded progress ("converges"): n frames into a stretch of constant input with an unchanged
        // time constant the gap is at most g^n of what it was, up to the rounding of n steps
        if constant && m.const_n[ch] > 0 && m.const_frames[ch] == frames {
            m.const_n[ch] += 1;
            // steps taken since the gap was recorded
            let n = (m.const_n[ch] - 1) as f64;
            // integer outputs: the correction is truncated toward zero, so the gap shrinks at least
            // geometrically down to the last step.  Float outputs: once gap x (1 - g) falls below the
            // spacing of the output format around the envelope, the documented expression rounds back to
            // the same value — an inherent floor of spacing / (1 - g).
            // (the f32 gain e^(-1/frames) carries a relative error of about (1/frames + 2) ulp)
            let rel = (8.0 + 4.0 / (frames as f64).max(1e-6)) * E32;
            let geometric = m.const_gap0[ch] * g.powf(n) * (1.0 + rel).powf(n);
            let bound = if out_lsb > 0.0 {
                geometric + 2.0 * out_lsb
            } else {
                // every step rounds the envelope once in the output format: the roundings accumulate
                // to at most spacing x (1 + g + g^2 + ..) = spacing / (1 - g)
                let spacing = 4.0 * out_eps * dv.abs().max(env.abs()) + tiny;
                geometric + spacing / (1.0 - g).max(1e-12) + spacing
            };
            if n >= 3.0 / (1.0 - g).max(1e-9) {
                obs.probe(P_CONVERGENCE_HORIZON);
            }
            check!(
                obs,
                gap <= bound,
                "envelope.converges",
                "constant input for {} frames ({} = {} frames, gain {}): |envelope - detected| is {} on channel {}, at most {} (from {} when the stretch began)",
                n,
                if attack_selected { "attack" } else { "release" },
                frames,
                g,
                gap,
                ch,
                bound,
                m.const_gap0[ch]
            );
        } else {
            // (re)start: this frame's outcome is the stretch's starting point
            m.const_n[ch] = 1;
            m.const_gap0[ch] = gap;
            m.const_frames[ch] = frames;
        }
        let dir = if attack_selected { 1 } else { -1 };
        if m.last_dir[ch] != 0 && m.last_dir[ch] != dir {
            obs.fault(F_DIRECTION_FLIP);
        }
        m.last_dir[ch] = dir;
        m.last_gap[ch] = gap;
        m.env[ch] = got[ch];
    }
    m.last_input = Some(x.to_vec());
    m.n += 1;
    Ok(())
}

fn drive<F: EnvFrame>(src: &mut Source, obs: &mut Observer) -> Result<(), Violation>
where
    F::Float: Debug,
{
    let chans = F::CHANNELS;
    if !F::IS_FLOAT {
        obs.probe(P_INTEGER_FORMAT);
    }
    let kind = [Kind::Full, Kind::Pos, Kind::Neg, Kind::FromRect, Kind::RmsDet][src.cfg("detector", 0, 4, |r| r.range(0, 4)) as usize];
    let adaptor = kind != Kind::Neg && kind != Kind::FromRect && src.cfg("adaptor", 0, 1, |r| r.chance(1, 3) as i64) == 1;
    let window = src.cfg("rms_window", 1, 260, |r| if r.chance(1, 10) { *r.pick(&[63i64, 64, 65, 100, 128, 256]) } else { r.range(1, 32) }) as usize;
    let attack = i2f(src.cfg("attack", i64::MIN, i64::MAX, |r| f2i(draw_time(r) as f64))) as f32;
    let release = i2f(src.cfg("release", i64::MIN, i64::MAX, |r| f2i(draw_time(r) as f64))) as f32;
    let ok_time = |t: f32| t.is_finite() && t >= 0.0;
    let attack = if ok_time(attack) { attack } else { 1.0 };
    let release = if ok_time(release) { release } else { 1.0 };
    let end = src.cfg("src_len", -1, 5000, |r| if r.bool() { -1 } else { r.range(0, 200) });
    let end = if end < 0 || !adaptor { None } else { Some(end as u64) };
    let steps = src.cfg("steps", 1, 5000, |r| if r.chance(1, 50) { r.range(1000, 5000) } else { r.range(1, 200) }) as usize;
    let shape = src.cfg("shape", 0, 4, |r| r.range(0, 4));
    if kind == Kind::RmsDet {
        obs.probe(P_RMS_DETECTOR);
    }
    // output format of the detector: signed companion (full wave), the format itself (half wave),
    // float companion (rms)
    let (out_lsb, out_eps) = match kind {
        Kind::RmsDet => (0.0, F::FLOAT_EPS),
        _ => (F::LSB, if F::IS_FLOAT { F::FLOAT_EPS } else { F::FLOAT_EPS }),
    };
    let mut m = Model {
        kind,
        chans,
        attack,
        release,
        env: vec![0.0; chans],
        win: (0..chans).map(|_| std::iter::repeat(0.0).take(window).collect()).collect(),
        n: 0,
        last_input: None,
        last_gap: vec![f64::INFINITY; chans],
        last_dir: vec![0; chans],
        const_n: vec![0; chans],
        const_gap0: vec![0.0; chans],
        const_frames: vec![0.0; chans],
        rms_t: 0,
        rms_max_sq: 0.0,
        rms_tol: vec![0.0; chans],
        float_eps: F::FLOAT_EPS,
    };
    let rms_buf = || Fixed::from(vec![F::float_zero(); window]);
    let slot: Rc<Cell<Option<F>>> = Rc::new(Cell::new(None));
    let pulls = Rc::new(Cell::new(0u64));
    let mut direct: Option<Sut<F>> = None;
    let mut adapt: Option<Adaptor<F>> = None;
    if adaptor {
        obs.probe(P_ADAPTOR);
        let s = SlotSignal {
            slot: slot.clone(),
            pulls: pulls.clone(),
            end,
        };
        adapt = Some(match kind {
            Kind::Full => Adaptor::Full(s.detect_envelope(Detector::peak(attack, release))),
            Kind::Pos => Adaptor::Pos(s.detect_envelope(Detector::peak_positive_half_wave(attack, release))),
            _ => Adaptor::Rms(s.detect_envelope(Detector::rms(rms_buf(), attack, release))),
        });
    } else {
        direct = Some(match kind {
            Kind::Full => Sut::Full(Detector::peak(attack, release)),
            Kind::FromRect => Sut::Full(Detector::peak_from_rectifier(peak::FullWave, attack, release)),
            Kind::Pos => Sut::Pos(Detector::peak_positive_half_wave(attack, release)),
            Kind::Neg => Sut::Neg(Detector::peak_negative_half_wave(attack, release)),
            Kind::RmsDet => Sut::Rms(Detector::rms(rms_buf(), attack, release)),
        });
    }
    let mut done = 0usize;
    let mut fed = 0u64;
    let mut level = 0.0f64;
    let mut hold = 0i64;
    let mut hold_b = 0i64;
    // float formats are not confined to [-1, 1]: some runs are loud
    let loud = src.cfg("loud_float", 0, 1, |r| (F::IS_FLOAT && r.chance(1, 4)) as i64) == 1 && F::IS_FLOAT;
    let (lo, hi) = if loud { (-8.0, 8.0) } else { (F::lo(), F::hi()) };
    if loud {
        obs.probe(P_LOUD_FLOAT);
    }
    loop {
        let op = src.next_op(|r| {
            if done >= steps {
                return None;
            }
            Some(match r.below(24) {
                0 => Op::ka(O_SET_ATTACK, f2i(draw_time(r) as f64)),
                1 => Op::ka(O_SET_RELEASE, f2i(draw_time(r) as f64)),
                2 if !adaptor => Op::k(O_CLONE_SWAP),
                2 if r.chance(1, 3) => Op::k(O_INTO_PARTS),
                _ => {
                    // input shapes: rising, falling, constant stretches, alternating, silence, boundaries
                    if hold > 0 {
                        hold -= 1;
                    } else {
                        match shape {
                            0 => level = (level + r.f64_in(0.0, 0.1) * hi).min(hi),
                            1 => level = (level - r.f64_in(0.0, 0.1) * hi).max(lo),
                            2 => {
                                level = r.f64_in(lo, hi);
                                // (rarely long enough for the follower to settle at slow time constants)
                                hold = if r.chance(1, 5) { r.range(60, 400) } else { r.range(2, 12) };
                                hold_b = r.range(0, 3);
                            }
                            3 => level = if level > 0.0 { -r.unit() * 0.9 * hi } else { r.unit() * 0.9 * hi },
                            _ => {
                                level = match r.below(6) {
                                    0 => 0.0,
                                    1 => lo,
                                    2 => hi,
                                    _ => r.f64_in(lo, hi),
                                }
                            }
                        }
                    }
                    // (the per-channel pattern stays put during a hold, so the whole frame is constant)
                    Op::kab(O_FRAME, f2i(level), if hold > 0 { hold_b } else { r.range(0, 3) })
                }
            })
        });
        let Some(op) = op else { break };
        done += 1;
        match op.k {
            O_FRAME => {
                let base = i2f(op.a);
                if !base.is_finite() {
                    src.skip_last();
                    obs.skipped();
                    continue;
                }
                obs.tick(op.k);
                if m.n > 0 {
                    obs.inflight();
                }
                let vals: Vec<f64> = (0..chans)
                    .map(|ch| {
                        let v = match (op.b + ch as i64) % 4 {
                            0 => base,
                            1 => -base,
                            2 => base * 0.5,
                            // a channel that moves against channel 0
                            _ => {
                                if chans > 1 && ch > 0 {
                                    (hi - base.abs()).max(0.0)
                                } else {
                                    base
                                }
                            }
                        };
                        v.clamp(lo, hi)
                    })
                    .collect();
                if vals.iter().any(|v| *v == lo || *v == hi) {
                    obs.probe(P_BOUNDARY_SAMPLE);
                }
                let frame = F::from_unit(&vals);
                // what the detector really sees (after the format conversion)
                let mut x = frame.unit();
                {
                    // the rectifiers called the way user code calls them: method syntax on the unit structs
                    use dasp_peak::Rectifier;
                    let (mut fw, mut pw, mut nw) = (peak::FullWave, peak::PositiveHalfWave, peak::NegativeHalfWave);
                    let full = F::unit_signed(fw.rectify(frame));
                    let pos = pw.rectify(frame).unit();
                    let neg = nw.rectify(frame).unit();
                    for ch in 0..chans {
                        check!(
                            obs,
                            full[ch] == x[ch].abs() && pos[ch] == x[ch].max(0.0) && neg[ch] == x[ch].min(0.0),
                            "envelope.rectifier-method",
                            "channel {} of {:?}: FullWave / PositiveHalfWave / NegativeHalfWave .rectify() gave {} / {} / {} for amplitude {}",
                            ch,
                            frame,
                            full[ch],
                            pos[ch],
                            neg[ch],
                            x[ch]
                        );
                    }
                }
                let got = if let Some(a) = adapt.as_mut() {
                    let exhausted = matches!(end, Some(e) if fed >= e);
                    check_eq!(obs, a.is_exhausted(), exhausted, "envelope.adaptor-exhausted", "adaptor is_exhausted() after {} frames", fed);
                    if exhausted {
                        obs.fault(F_SOURCE_EOF);
                        x = vec![0.0; chans];
                    }
                    slot.set(Some(frame));
                    let g = a.next();
                    fed += 1;
                    check_eq!(obs, pulls.get(), fed, "envelope.adaptor-pulls", "source frames pulled by the adaptor");
                    g
                } else {
                    direct.as_mut().unwrap().next(frame)
                };
                for v in &got {
                    obs.note_f64(*v);
                }
                check_frame::<F>(&mut m, &x, &got, out_lsb, out_eps, obs)?;
                let tclass = |t: f32| if t == 0.0 { 0u64 } else if t < 2.0 { 1 } else if t < 1e4 { 2 } else { 3 };
                let gap = m.last_gap[0];
                let gclass = if gap == 0.0 { 0u64 } else if gap < 1e-3 { 1 } else { 2 };
                obs.state(
                    (kind as u64) << 12 | (adaptor as u64) << 11 | (F::IS_FLOAT as u64) << 10 | tclass(m.attack) << 8 | tclass(m.release) << 6 | gclass << 4 | (m.last_dir[0] + 1) as u64,
                    op.k,
                );
            }
            O_SET_ATTACK | O_SET_RELEASE => {
                let v = i2f(op.a) as f32;
                if !ok_time(v) {
                    src.skip_last();
                    obs.skipped();
                    continue;
                }
                obs.tick(op.k);
                obs.note(op.a as u64);
                obs.fault(F_RECONFIGURE);
                if v >= 1e5 {
                    obs.fault(F_HUGE_TIME);
                }
                if m.n > 0 {
                    obs.inflight();
                }
                let attack_op = op.k == O_SET_ATTACK;
                match (adapt.as_mut(), direct.as_mut()) {
                    (Some(a), _) => {
                        if attack_op {
                            a.set_attack(v)
                        } else {
                            a.set_release(v)
                        }
                    }
                    (_, Some(d)) => {
                        if attack_op {
                            d.set_attack(v)
                        } else {
                            d.set_release(v)
                        }
                    }
                    _ => {}
                }
                if attack_op {
                    m.attack = v;
                } else {
                    m.release = v;
                }
                // the previous envelope is kept: only subsequent frames are affected (checked by the
                // model continuing from the last observed envelope)
            }
            O_INTO_PARTS => {
                let Some(a) = adapt.take() else {
                    src.skip_last();
                    obs.skipped();
                    continue;
                };
                obs.tick(op.k);
                obs.fault(F_SNAPSHOT);
                direct = Some(a.into_detector());
            }
            O_CLONE_SWAP => {
                let Some(d) = direct.as_ref() else {
                    src.skip_last();
                    obs.skipped();
                    continue;
                };
                obs.tick(op.k);
                obs.fault(F_SNAPSHOT);
                direct = Some(d.clone());
            }
            _ => {
                src.skip_last();
                obs.skipped();
            }
        }
    }
    Ok(())
}

impl Scenario for EnvelopeScenario {
    fn name(&self) -> &'static str {
        // (the same scenario is also built against the no_std feature set, see dsim-nostd-signal)
        if cfg!(feature = "nostd") {
            "envelope-nostd"
        } else {
            "envelope"
        }
    }
    fn property(&self) -> &'static str {
        "C19"
    }
    fn ops(&self) -> &'static [OpSpec] {
        &OPS
    }
    fn faults(&self) -> &'static [&'static str] {
        &[
            "attack/release reconfigured mid-stream",
            "selected time is 0 frames",
            "time >= 1e5 frames",
            "adaptor source end-of-stream",
            "snapshot/restore (clone and continue on the clone)",
            "direction flip (attack <-> release between consecutive frames)",
        ]
    }
    fn probes(&self) -> &'static [&'static str] {
        &[
            "constant-input stretch (monotone convergence checked)",
            "output must equal the detected value (0 frames)",
            "integer sample format",
            "through the detect_envelope adaptor",
            "RMS detector",
            "sample at the boundary of the negatable range",
            "attack gain selected",
            "release gain selected",
            "constant stretch longer than 3 time constants (bounded progress checked at the horizon)",
            "float input beyond [-1, 1]",
        ]
    }
    fn rule(&self) -> &'static str {
        "case = (format of 12 (1 to 40 channels), detector full/positive/negative half wave / from_rectifier / rms(window), direct or adaptor with finite source, \
         initial attack/release incl. 0 and 1e6, input shape rising/falling/constant stretches/alternating/boundaries, seeded frame / \
         set_attack / set_release / clone schedule); non-trivial = at least one fault kind fired and at least one operation after the \
         first frame; distinct = hash of (ops, outputs)"
    }
    fn real(&self) -> &'static [&'static str] {
        &[
            "dasp_envelope::{Detector, Peak, Detect for Rms}, dasp_peak rectifiers (FullWave, PositiveHalfWave, NegativeHalfWave)",
            "dasp_signal::envelope::{SignalEnvelope, DetectEnvelope}",
            "dasp_rms::Rms under the RMS detector",
        ]
    }
    fn stubs(&self) -> &'static [&'static str] {
        &["slot-fed source signal (adaptor mode)", "one-pole model driven by the previously observed envelope, independent rectifier / RMS recomputation"]
    }
    fn assumptions(&self) -> &'static [&'static str] {
        &[
            "inputs are samples whose negated amplitude is representable (as the property says)",
            "tolerance: (4 eps_f32 + 2 eps_float) |env - d| + 4 eps_out (|env| + |d|) + 2 LSB_out; for the RMS detector the detected value itself carries C11's rigorous running-sum bound",
            "convergence: n frames into a constant stretch the gap is at most g^n of its start (relative slack for the f32 gain), plus 2 LSB for integer outputs, plus spacing/(1-g) for float outputs",
            "frames and outputs are decoded independently from the raw representation (raw.rs)",
        ]
    }
    fn runs(&self, tier: &str) -> u64 {
        // (the no_std twin build of the same scenario runs a third of the budget)
        let div = if cfg!(feature = "nostd") { 3 } else { 1 };
        if tier == "quick" {
            500_000 / div
        } else {
            20_000_000 / div
        }
    }
    fn run(&self, src: &mut Source, obs: &mut Observer) -> Result<(), Violation> {
        let fmt = src.cfg("frame", 0, 11, |r| r.range(0, 11));
        obs.note(fmt as u64);
        match fmt {
            0 => drive::<f32>(src, obs),
            1 => drive::<f64>(src, obs),
            2 => drive::<[f32; 2]>(src, obs),
            3 => drive::<i16>(src, obs),
            4 => drive::<[i16; 2]>(src, obs),
            5 => drive::<u8>(src, obs),
            6 => drive::<i32>(src, obs),
            7 => drive::<[f32; 9]>(src, obs),
            8 => drive::<[i16; 12]>(src, obs),
            9 => drive::<u16>(src, obs),
            10 => drive::<[u8; 2]>(src, obs),
            _ => drive::<[f32; 40]>(src, obs),
        }
    }
}
