//! Frame formats for the adaptor-tree scenarios: concrete helpers generated per type so that the
//! generic tree code needs no where-clause gymnastics.

use crate::raw;
use dasp_frame::Frame;
use dasp_sample::types::{I24, I48, U24, U48};
use dasp_sample::Sample;
use std::fmt::Debug;

type SignedOf<F> = <<F as Frame>::Sample as Sample>::Signed;
type FloatOf<F> = <<F as Frame>::Sample as Sample>::Float;

pub trait AdFrame: Frame + Debug + 'static {
    type SF: Frame<Sample = SignedOf<Self>, NumChannels = Self::NumChannels> + Debug + 'static;
    type FF: Frame<Sample = FloatOf<Self>, NumChannels = Self::NumChannels> + Debug + 'static;
    const NAME: &'static str;
    /// Leaf frame: id encodes (leaf number, amplitude shift); |amplitude| < 2^-shift of full scale.
    fn leaf(id: u32, idx: u64) -> Self;
    /// Leaf frame of the signed companion format (second input of `add_amp`).
    fn sleaf(id: u32, idx: u64) -> Self::SF;
    /// Gain frame (second input of `mul_amp`): gains in {-2, -1.5, .., 2}.
    fn fleaf(id: u32, idx: u64) -> Self::FF;
    /// Offset parameter q/1024 of full scale.
    fn sparam(q: i64) -> SignedOf<Self>;
    /// Gain parameter q/8.
    fn fparam(q: i64) -> FloatOf<Self>;
    fn spc(q: i64) -> Self::SF;
    /// The silent frame, stated independently of the library's `EQUILIBRIUM` constants: every channel
    /// at the middle of the format's range (integers) / at 0.0 (floats).
    fn eq_ref() -> Self;
    fn seq_ref() -> Self::SF;
    fn feq_ref() -> Self::FF;
    /// Leaf frame made of edge values of the format (minimum, maximum, around equilibrium, powers of two).
    fn edge_leaf(id: u32, idx: u64) -> Self;
    /// largest amplitude of the signed companion
    fn smax() -> SignedOf<Self>;
    /// gain frame of ones / offset frame of zeros
    fn ones() -> Self::FF;
    fn zeros() -> Self::SF;
    fn fpc(q: i64) -> Self::FF;
    /// Independent statement of clip_amp: signed amplitude limited to [-t, t].
    fn clip_ref(self, t: SignedOf<Self>) -> Self;
    /// The frame operations restated channel by channel on the raw representation (raw.rs: what
    /// C01-C03 say the sample operations are), so that the reference shares neither the frame-level
    /// nor the sample-level code of the implementation.
    fn add_ref(self, o: Self::SF) -> Self;
    fn mul_ref(self, o: Self::FF) -> Self;
    fn scale_ref(self, g: FloatOf<Self>) -> Self;
    fn offset_ref(self, o: SignedOf<Self>) -> Self;
    fn reverse(self) -> Self;
    fn select(self, other: Self) -> Self;
    fn bits(&self) -> u64;
    fn sample_bits(s: Self::Sample) -> u64;
    /// Channels decoded to f64 amplitudes (independent decoding, see raw.rs).
    fn to_f64s(self) -> Vec<f64>;
    /// Frame from f64 channel amplitudes (independent encoding, see raw.rs).
    fn from_f64s(v: &[f64]) -> Self;
    /// One least significant step of the sample format expressed in its f64 conversion
    /// (0.0 for float formats).
    fn lsb_f64() -> f64;
    const IS_FLOAT: bool;
}

/// Leaf ids with this bit set stand for frames made of the format's edge values.
pub const EDGE_BIT: u32 = 1 << 31;
pub fn any_leaf<F: AdFrame>(id: u32, idx: u64) -> F {
    if id & EDGE_BIT != 0 {
        F::edge_leaf(id & !EDGE_BIT, idx)
    } else {
        F::leaf(id, idx)
    }
}

pub fn leaf_val(id: u32, idx: u64, ch: usize) -> f64 {
    let shift = (id / 16) as i32;
    let leaf = (id % 16) as u64;
    let k = ((idx * 13 + leaf * 29 + ch as u64 * 7) % 127) as f64 - 63.0;
    // low-order dither (|d| < 2^-10, resolution 2^-41) so that wide integer formats carry
    // full-width bit patterns, not just seven significant bits
    let h = simcore::rng::mix(&[id as u64, idx, ch as u64]) & 0xffff_ffff;
    let d = (h as f64 - 2_147_483_648.0) / 2f64.powi(41);
    (k / 64.0 + d) / 2f64.powi(shift)
}
pub fn gain_val(id: u32, idx: u64, ch: usize) -> f64 {
    let leaf = (id % 16) as u64;
    ((idx * 5 + leaf * 3 + ch as u64) % 9) as f64 / 2.0 - 2.0
}
pub fn spc_val(q: i64, ch: usize) -> f64 {
    ((q + 37 * ch as i64).rem_euclid(257) - 128) as f64 / 1024.0 + ((q + ch as i64) * 40_503).rem_euclid(509) as f64 / 17_179_869_184.0
}
pub fn fpc_val(q: i64, ch: usize) -> f64 {
    ((q + 3 * ch as i64).rem_euclid(17) - 8) as f64 / 8.0
}

macro_rules! ad_frame {
    ($name:expr, $T:ty, $S:ty) => {
        impl AdFrame for $T {
            type SF = <$T as Frame>::Signed;
            type FF = <$T as Frame>::Float;
            const NAME: &'static str = $name;
            fn leaf(id: u32, idx: u64) -> Self {
                <$T as Frame>::from_fn(|ch| leaf_val(id, idx, ch).to_sample::<$S>())
            }
            fn sleaf(id: u32, idx: u64) -> Self::SF {
                <Self::SF as Frame>::from_fn(|ch| leaf_val(id, idx, ch).to_sample::<<$S as Sample>::Signed>())
            }
            fn fleaf(id: u32, idx: u64) -> Self::FF {
                <Self::FF as Frame>::from_fn(|ch| gain_val(id, idx, ch).to_sample::<<$S as Sample>::Float>())
            }
            fn sparam(q: i64) -> <$S as Sample>::Signed {
                // (low-order dither: offsets and thresholds are not multiples of a coarser format's step)
                (q as f64 / 1024.0 + (q * 2_654_435_761).rem_euclid(1021) as f64 / 17_179_869_184.0).to_sample::<<$S as Sample>::Signed>()
            }
            fn fparam(q: i64) -> <$S as Sample>::Float {
                (q as f64 / 8.0).to_sample::<<$S as Sample>::Float>()
            }
            fn eq_ref() -> Self {
                <$T as Frame>::from_fn(|_| raw::from_norm::<$S>(0.0))
            }
            fn seq_ref() -> Self::SF {
                <Self::SF as Frame>::from_fn(|_| raw::from_norm::<<$S as Sample>::Signed>(0.0))
            }
            fn feq_ref() -> Self::FF {
                <Self::FF as Frame>::from_fn(|_| raw::from_norm::<<$S as Sample>::Float>(0.0))
            }
            fn edge_leaf(id: u32, idx: u64) -> Self {
                <$T as Frame>::from_fn(|ch| raw::edge_value::<$S>(id as u64 + idx * 7 + ch as u64 * 3))
            }
            fn smax() -> <$S as Sample>::Signed {
                raw::max_value::<<$S as Sample>::Signed>()
            }
            fn ones() -> Self::FF {
                <Self::FF as Frame>::from_fn(|_| raw::from_norm::<<$S as Sample>::Float>(1.0))
            }
            fn zeros() -> Self::SF {
                <Self::SF as Frame>::EQUILIBRIUM
            }
            fn spc(q: i64) -> Self::SF {
                <Self::SF as Frame>::from_fn(|ch| spc_val(q, ch).to_sample::<<$S as Sample>::Signed>())
            }
            fn fpc(q: i64) -> Self::FF {
                <Self::FF as Frame>::from_fn(|ch| fpc_val(q, ch).to_sample::<<$S as Sample>::Float>())
            }
            fn add_ref(self, o: Self::SF) -> Self {
                <$T as Frame>::from_fn(|ch| raw::add_amp_ref::<$S>(*self.channel(ch).unwrap(), *o.channel(ch).unwrap()))
            }
            fn mul_ref(self, o: Self::FF) -> Self {
                <$T as Frame>::from_fn(|ch| raw::mul_amp_ref::<$S>(*self.channel(ch).unwrap(), *o.channel(ch).unwrap()))
            }
            fn scale_ref(self, g: <$S as Sample>::Float) -> Self {
                <$T as Frame>::from_fn(|ch| raw::mul_amp_ref::<$S>(*self.channel(ch).unwrap(), g))
            }
            fn offset_ref(self, o: <$S as Sample>::Signed) -> Self {
                <$T as Frame>::from_fn(|ch| raw::add_amp_ref::<$S>(*self.channel(ch).unwrap(), o))
            }
            fn clip_ref(self, t: <$S as Sample>::Signed) -> Self {
                <$T as Frame>::from_fn(|ch| raw::clip_ref::<$S>(*self.channel(ch).unwrap(), t))
            }
            fn reverse(self) -> Self {
                let n = <$T as Frame>::CHANNELS;
                <$T as Frame>::from_fn(|ch| *self.channel(n - 1 - ch).unwrap())
            }
            fn select(self, other: Self) -> Self {
                <$T as Frame>::from_fn(|ch| {
                    if ch % 2 == 0 {
                        *self.channel(ch).unwrap()
                    } else {
                        *other.channel(ch).unwrap()
                    }
                })
            }
            fn bits(&self) -> u64 {
                let mut h = 0u64;
                for s in self.channels() {
                    h = h.rotate_left(7) ^ raw::norm::<$S>(s).to_bits();
                }
                h
            }
            fn sample_bits(s: $S) -> u64 {
                raw::norm::<$S>(s).to_bits()
            }
            fn to_f64s(self) -> Vec<f64> {
                self.channels().map(|s| raw::norm::<$S>(s)).collect()
            }
            fn from_f64s(v: &[f64]) -> Self {
                <$T as Frame>::from_fn(|ch| raw::from_norm::<$S>(v[ch]))
            }
            fn lsb_f64() -> f64 {
                // (from the format's width, not its storage size: I24 / U24 / I48 / U48 live in wider words)
                if <$S as raw::Raw>::BITS == 0 {
                    0.0
                } else {
                    2.0 / 2f64.powi(<$S as raw::Raw>::BITS as i32)
                }
            }
            const IS_FLOAT: bool = $name.as_bytes()[0] == b'f' || ($name.as_bytes()[0] == b'[' && $name.as_bytes()[1] == b'f');
        }
    };
}

ad_frame!("f32", f32, f32);
ad_frame!("f64", f64, f64);
ad_frame!("[f32;2]", [f32; 2], f32);
ad_frame!("[i16;2]", [i16; 2], i16);
ad_frame!("[u8;3]", [u8; 3], u8);
ad_frame!("[i32;1]", [i32; 1], i32);
ad_frame!("[f64;8]", [f64; 8], f64);
ad_frame!("[u16;32]", [u16; 32], u16);
ad_frame!("[i16;8]", [i16; 8], i16);
ad_frame!("i16", i16, i16);
ad_frame!("u8", u8, u8);
ad_frame!("i64", i64, i64);
ad_frame!("[i32;2]", [i32; 2], i32);
ad_frame!("[f64;2]", [f64; 2], f64);
ad_frame!("[I24;2]", [I24; 2], I24);
ad_frame!("[U48;2]", [U48; 2], U48);
ad_frame!("[U24;3]", [U24; 3], U24);
ad_frame!("[i8;4]", [i8; 4], i8);
ad_frame!("[i32;12]", [i32; 12], i32);
ad_frame!("[f32;9]", [f32; 9], f32);
ad_frame!("[i16;12]", [i16; 12], i16);
// --- formats used only by the static-stack format sweep (every sample type mono and stereo, every
// channel count 3..=32 with two sample types each)
ad_frame!("i8", i8, i8);
ad_frame!("[i8;2]", [i8; 2], i8);
ad_frame!("I24", I24, I24);
ad_frame!("i32", i32, i32);
ad_frame!("I48", I48, I48);
ad_frame!("[I48;2]", [I48; 2], I48);
ad_frame!("[i64;2]", [i64; 2], i64);
ad_frame!("[u8;2]", [u8; 2], u8);
ad_frame!("u16", u16, u16);
ad_frame!("[u16;2]", [u16; 2], u16);
ad_frame!("U24", U24, U24);
ad_frame!("[U24;2]", [U24; 2], U24);
ad_frame!("u32", u32, u32);
ad_frame!("[u32;2]", [u32; 2], u32);
ad_frame!("U48", U48, U48);
ad_frame!("u64", u64, u64);
ad_frame!("[u64;2]", [u64; 2], u64);
ad_frame!("[I48;3]", [I48; 3], I48);
ad_frame!("[i32;3]", [i32; 3], i32);
ad_frame!("[u32;4]", [u32; 4], u32);
ad_frame!("[u8;4]", [u8; 4], u8);
ad_frame!("[i8;5]", [i8; 5], i8);
ad_frame!("[u32;5]", [u32; 5], u32);
ad_frame!("[i64;6]", [i64; 6], i64);
ad_frame!("[f32;6]", [f32; 6], f32);
ad_frame!("[U48;7]", [U48; 7], U48);
ad_frame!("[i16;7]", [i16; 7], i16);
ad_frame!("[I48;8]", [I48; 8], I48);
ad_frame!("[u8;9]", [u8; 9], u8);
ad_frame!("[u16;9]", [u16; 9], u16);
ad_frame!("[u64;10]", [u64; 10], u64);
ad_frame!("[U48;10]", [U48; 10], U48);
ad_frame!("[I24;11]", [I24; 11], I24);
ad_frame!("[f64;11]", [f64; 11], f64);
ad_frame!("[u16;12]", [u16; 12], u16);
ad_frame!("[I24;12]", [I24; 12], I24);
ad_frame!("[f32;13]", [f32; 13], f32);
ad_frame!("[i64;13]", [i64; 13], i64);
ad_frame!("[i32;14]", [i32; 14], i32);
ad_frame!("[U24;14]", [U24; 14], U24);
ad_frame!("[U24;15]", [U24; 15], U24);
ad_frame!("[u64;15]", [u64; 15], u64);
ad_frame!("[f64;16]", [f64; 16], f64);
ad_frame!("[i8;16]", [i8; 16], i8);
ad_frame!("[I48;17]", [I48; 17], I48);
ad_frame!("[i32;17]", [i32; 17], i32);
ad_frame!("[u32;18]", [u32; 18], u32);
ad_frame!("[u8;18]", [u8; 18], u8);
ad_frame!("[i8;19]", [i8; 19], i8);
ad_frame!("[u32;19]", [u32; 19], u32);
ad_frame!("[i64;20]", [i64; 20], i64);
ad_frame!("[f32;20]", [f32; 20], f32);
ad_frame!("[U48;21]", [U48; 21], U48);
ad_frame!("[i16;21]", [i16; 21], i16);
ad_frame!("[i16;22]", [i16; 22], i16);
ad_frame!("[I48;22]", [I48; 22], I48);
ad_frame!("[u8;23]", [u8; 23], u8);
ad_frame!("[u16;23]", [u16; 23], u16);
ad_frame!("[u64;24]", [u64; 24], u64);
ad_frame!("[U48;24]", [U48; 24], U48);
ad_frame!("[I24;25]", [I24; 25], I24);
ad_frame!("[f64;25]", [f64; 25], f64);
ad_frame!("[u16;26]", [u16; 26], u16);
ad_frame!("[I24;26]", [I24; 26], I24);
ad_frame!("[f32;27]", [f32; 27], f32);
ad_frame!("[i64;27]", [i64; 27], i64);
ad_frame!("[i32;28]", [i32; 28], i32);
ad_frame!("[U24;28]", [U24; 28], U24);
ad_frame!("[U24;29]", [U24; 29], U24);
ad_frame!("[u64;29]", [u64; 29], u64);
ad_frame!("[f64;30]", [f64; 30], f64);
ad_frame!("[i8;30]", [i8; 30], i8);
ad_frame!("[I48;31]", [I48; 31], I48);
ad_frame!("[i32;31]", [i32; 31], i32);
ad_frame!("[u32;32]", [u32; 32], u32);
ad_frame!("[u8;32]", [u8; 32], u8);

pub const N_SWEEP: usize = 88;
/// Call a generic function with the `idx`-th format of the sweep list.
#[macro_export]
macro_rules! with_sweep_format {
    ($idx:expr, $f:ident, $($arg:expr),*) => {
        match $idx {
            0 => $f::<i8>($($arg),*),
            1 => $f::<[i8; 2]>($($arg),*),
            2 => $f::<i16>($($arg),*),
            3 => $f::<[i16; 2]>($($arg),*),
            4 => $f::<dasp_sample::types::I24>($($arg),*),
            5 => $f::<[dasp_sample::types::I24; 2]>($($arg),*),
            6 => $f::<i32>($($arg),*),
            7 => $f::<[i32; 2]>($($arg),*),
            8 => $f::<dasp_sample::types::I48>($($arg),*),
            9 => $f::<[dasp_sample::types::I48; 2]>($($arg),*),
            10 => $f::<i64>($($arg),*),
            11 => $f::<[i64; 2]>($($arg),*),
            12 => $f::<u8>($($arg),*),
            13 => $f::<[u8; 2]>($($arg),*),
            14 => $f::<u16>($($arg),*),
            15 => $f::<[u16; 2]>($($arg),*),
            16 => $f::<dasp_sample::types::U24>($($arg),*),
            17 => $f::<[dasp_sample::types::U24; 2]>($($arg),*),
            18 => $f::<u32>($($arg),*),
            19 => $f::<[u32; 2]>($($arg),*),
            20 => $f::<dasp_sample::types::U48>($($arg),*),
            21 => $f::<[dasp_sample::types::U48; 2]>($($arg),*),
            22 => $f::<u64>($($arg),*),
            23 => $f::<[u64; 2]>($($arg),*),
            24 => $f::<f32>($($arg),*),
            25 => $f::<[f32; 2]>($($arg),*),
            26 => $f::<f64>($($arg),*),
            27 => $f::<[f64; 2]>($($arg),*),
            28 => $f::<[dasp_sample::types::I48; 3]>($($arg),*),
            29 => $f::<[i32; 3]>($($arg),*),
            30 => $f::<[u32; 4]>($($arg),*),
            31 => $f::<[u8; 4]>($($arg),*),
            32 => $f::<[i8; 5]>($($arg),*),
            33 => $f::<[u32; 5]>($($arg),*),
            34 => $f::<[i64; 6]>($($arg),*),
            35 => $f::<[f32; 6]>($($arg),*),
            36 => $f::<[dasp_sample::types::U48; 7]>($($arg),*),
            37 => $f::<[i16; 7]>($($arg),*),
            38 => $f::<[i16; 8]>($($arg),*),
            39 => $f::<[dasp_sample::types::I48; 8]>($($arg),*),
            40 => $f::<[u8; 9]>($($arg),*),
            41 => $f::<[u16; 9]>($($arg),*),
            42 => $f::<[u64; 10]>($($arg),*),
            43 => $f::<[dasp_sample::types::U48; 10]>($($arg),*),
            44 => $f::<[dasp_sample::types::I24; 11]>($($arg),*),
            45 => $f::<[f64; 11]>($($arg),*),
            46 => $f::<[u16; 12]>($($arg),*),
            47 => $f::<[dasp_sample::types::I24; 12]>($($arg),*),
            48 => $f::<[f32; 13]>($($arg),*),
            49 => $f::<[i64; 13]>($($arg),*),
            50 => $f::<[i32; 14]>($($arg),*),
            51 => $f::<[dasp_sample::types::U24; 14]>($($arg),*),
            52 => $f::<[dasp_sample::types::U24; 15]>($($arg),*),
            53 => $f::<[u64; 15]>($($arg),*),
            54 => $f::<[f64; 16]>($($arg),*),
            55 => $f::<[i8; 16]>($($arg),*),
            56 => $f::<[dasp_sample::types::I48; 17]>($($arg),*),
            57 => $f::<[i32; 17]>($($arg),*),
            58 => $f::<[u32; 18]>($($arg),*),
            59 => $f::<[u8; 18]>($($arg),*),
            60 => $f::<[i8; 19]>($($arg),*),
            61 => $f::<[u32; 19]>($($arg),*),
            62 => $f::<[i64; 20]>($($arg),*),
            63 => $f::<[f32; 20]>($($arg),*),
            64 => $f::<[dasp_sample::types::U48; 21]>($($arg),*),
            65 => $f::<[i16; 21]>($($arg),*),
            66 => $f::<[i16; 22]>($($arg),*),
            67 => $f::<[dasp_sample::types::I48; 22]>($($arg),*),
            68 => $f::<[u8; 23]>($($arg),*),
            69 => $f::<[u16; 23]>($($arg),*),
            70 => $f::<[u64; 24]>($($arg),*),
            71 => $f::<[dasp_sample::types::U48; 24]>($($arg),*),
            72 => $f::<[dasp_sample::types::I24; 25]>($($arg),*),
            73 => $f::<[f64; 25]>($($arg),*),
            74 => $f::<[u16; 26]>($($arg),*),
            75 => $f::<[dasp_sample::types::I24; 26]>($($arg),*),
            76 => $f::<[f32; 27]>($($arg),*),
            77 => $f::<[i64; 27]>($($arg),*),
            78 => $f::<[i32; 28]>($($arg),*),
            79 => $f::<[dasp_sample::types::U24; 28]>($($arg),*),
            80 => $f::<[dasp_sample::types::U24; 29]>($($arg),*),
            81 => $f::<[u64; 29]>($($arg),*),
            82 => $f::<[f64; 30]>($($arg),*),
            83 => $f::<[i8; 30]>($($arg),*),
            84 => $f::<[dasp_sample::types::I48; 31]>($($arg),*),
            85 => $f::<[i32; 31]>($($arg),*),
            86 => $f::<[u32; 32]>($($arg),*),
            87 => $f::<[u8; 32]>($($arg),*),
            _ => unreachable!(),
        }
    };
}
