//! Frame formats for the adaptor-tree scenarios: concrete helpers generated per type so that the
//! generic tree code needs no where-clause gymnastics.

use dasp_frame::Frame;
use dasp_sample::types::{I24, U24, U48};
use dasp_sample::Sample;
use std::fmt::Debug;

type SignedOf<F> = <<F as Frame>::Sample as Sample>::Signed;
type FloatOf<F> = <<F as Frame>::Sample as Sample>::Float;

pub trait AdFrame: Frame + Debug + 'static {
    type SF: Frame<Sample = SignedOf<Self>, NumChannels = Self::NumChannels> + Debug + 'static;
    type FF: Frame<Sample = FloatOf<Self>, NumChannels = Self::NumChannels> + Debug + 'static;
    const NAME: &'static str;
    /// Leaf frame: id encodes (leaf number, amplitude shift); |amplitude| < 2^-shift of full scale.
    fn leaf(id: u32, idx: u64) -> Self;
    /// Leaf frame of the signed companion format (second input of `add_amp`).
    fn sleaf(id: u32, idx: u64) -> Self::SF;
    /// Gain frame (second input of `mul_amp`): gains in {-2, -1.5, .., 2}.
    fn fleaf(id: u32, idx: u64) -> Self::FF;
    /// Offset parameter q/1024 of full scale.
    fn sparam(q: i64) -> SignedOf<Self>;
    /// Gain parameter q/8.
    fn fparam(q: i64) -> FloatOf<Self>;
    fn spc(q: i64) -> Self::SF;
    fn fpc(q: i64) -> Self::FF;
    /// Independent statement of clip_amp: signed amplitude limited to [-t, t].
    fn clip_ref(self, t: SignedOf<Self>) -> Self;
    /// The frame operations restated channel by channel on the *sample* operations (what C03 says
    /// they are), so that the reference does not share the frame-level code of the implementation.
    fn add_ref(self, o: Self::SF) -> Self;
    fn mul_ref(self, o: Self::FF) -> Self;
    fn scale_ref(self, g: FloatOf<Self>) -> Self;
    fn offset_ref(self, o: SignedOf<Self>) -> Self;
    fn reverse(self) -> Self;
    fn select(self, other: Self) -> Self;
    fn bits(&self) -> u64;
    fn sample_bits(s: Self::Sample) -> u64;
    /// Channels converted to f64 with the sample conversion (`to_sample::<f64>()`).
    fn to_f64s(self) -> Vec<f64>;
    /// Frame from f64 channel values with the sample conversion (`to_sample::<S>()`).
    fn from_f64s(v: &[f64]) -> Self;
    /// One least significant step of the sample format expressed in its f64 conversion
    /// (0.0 for float formats).
    fn lsb_f64() -> f64;
    const IS_FLOAT: bool;
}

pub fn leaf_val(id: u32, idx: u64, ch: usize) -> f64 {
    let shift = (id / 16) as i32;
    let leaf = (id % 16) as u64;
    let k = ((idx * 13 + leaf * 29 + ch as u64 * 7) % 127) as f64 - 63.0;
    k / 64.0 / 2f64.powi(shift)
}
pub fn gain_val(id: u32, idx: u64, ch: usize) -> f64 {
    let leaf = (id % 16) as u64;
    ((idx * 5 + leaf * 3 + ch as u64) % 9) as f64 / 2.0 - 2.0
}
pub fn spc_val(q: i64, ch: usize) -> f64 {
    ((q + 37 * ch as i64).rem_euclid(257) - 128) as f64 / 1024.0
}
pub fn fpc_val(q: i64, ch: usize) -> f64 {
    ((q + 3 * ch as i64).rem_euclid(17) - 8) as f64 / 8.0
}

macro_rules! ad_frame {
    ($name:expr, $T:ty, $S:ty) => {
        impl AdFrame for $T {
            type SF = <$T as Frame>::Signed;
            type FF = <$T as Frame>::Float;
            const NAME: &'static str = $name;
            fn leaf(id: u32, idx: u64) -> Self {
                <$T as Frame>::from_fn(|ch| leaf_val(id, idx, ch).to_sample::<$S>())
            }
            fn sleaf(id: u32, idx: u64) -> Self::SF {
                <Self::SF as Frame>::from_fn(|ch| leaf_val(id, idx, ch).to_sample::<<$S as Sample>::Signed>())
            }
            fn fleaf(id: u32, idx: u64) -> Self::FF {
                <Self::FF as Frame>::from_fn(|ch| gain_val(id, idx, ch).to_sample::<<$S as Sample>::Float>())
            }
            fn sparam(q: i64) -> <$S as Sample>::Signed {
                (q as f64 / 1024.0).to_sample::<<$S as Sample>::Signed>()
            }
            fn fparam(q: i64) -> <$S as Sample>::Float {
                (q as f64 / 8.0).to_sample::<<$S as Sample>::Float>()
            }
            fn spc(q: i64) -> Self::SF {
                <Self::SF as Frame>::from_fn(|ch| spc_val(q, ch).to_sample::<<$S as Sample>::Signed>())
            }
            fn fpc(q: i64) -> Self::FF {
                <Self::FF as Frame>::from_fn(|ch| fpc_val(q, ch).to_sample::<<$S as Sample>::Float>())
            }
            fn add_ref(self, o: Self::SF) -> Self {
                <$T as Frame>::from_fn(|ch| Sample::add_amp(*self.channel(ch).unwrap(), *o.channel(ch).unwrap()))
            }
            fn mul_ref(self, o: Self::FF) -> Self {
                <$T as Frame>::from_fn(|ch| Sample::mul_amp(*self.channel(ch).unwrap(), *o.channel(ch).unwrap()))
            }
            fn scale_ref(self, g: <$S as Sample>::Float) -> Self {
                <$T as Frame>::from_fn(|ch| Sample::mul_amp(*self.channel(ch).unwrap(), g))
            }
            fn offset_ref(self, o: <$S as Sample>::Signed) -> Self {
                <$T as Frame>::from_fn(|ch| Sample::add_amp(*self.channel(ch).unwrap(), o))
            }
            fn clip_ref(self, t: <$S as Sample>::Signed) -> Self {
                <$T as Frame>::from_fn(|ch| {
                    let s: $S = *self.channel(ch).unwrap();
                    let x: <$S as Sample>::Signed = s.to_sample();
                    let lo = -t;
                    let y = if x > t {
                        t
                    } else if x < lo {
                        lo
                    } else {
                        x
                    };
                    y.to_sample::<$S>()
                })
            }
            fn reverse(self) -> Self {
                let n = <$T as Frame>::CHANNELS;
                <$T as Frame>::from_fn(|ch| *self.channel(n - 1 - ch).unwrap())
            }
            fn select(self, other: Self) -> Self {
                <$T as Frame>::from_fn(|ch| {
                    if ch % 2 == 0 {
                        *self.channel(ch).unwrap()
                    } else {
                        *other.channel(ch).unwrap()
                    }
                })
            }
            fn bits(&self) -> u64 {
                let mut h = 0u64;
                for s in self.channels() {
                    h = h.rotate_left(7) ^ s.to_sample::<f64>().to_bits();
                }
                h
            }
            fn sample_bits(s: $S) -> u64 {
                s.to_sample::<f64>().to_bits()
            }
            fn to_f64s(self) -> Vec<f64> {
                self.channels().map(|s| s.to_sample::<f64>()).collect()
            }
            fn from_f64s(v: &[f64]) -> Self {
                <$T as Frame>::from_fn(|ch| v[ch].to_sample::<$S>())
            }
            fn lsb_f64() -> f64 {
                if Self::IS_FLOAT {
                    0.0
                } else {
                    2.0 / 2f64.powi(8 * core::mem::size_of::<$S>() as i32)
                }
            }
            const IS_FLOAT: bool = $name.as_bytes()[0] == b'f' || ($name.as_bytes()[0] == b'[' && $name.as_bytes()[1] == b'f');
        }
    };
}

ad_frame!("f32", f32, f32);
ad_frame!("f64", f64, f64);
ad_frame!("[f32;2]", [f32; 2], f32);
ad_frame!("[i16;2]", [i16; 2], i16);
ad_frame!("[u8;3]", [u8; 3], u8);
ad_frame!("[i32;1]", [i32; 1], i32);
ad_frame!("[f64;8]", [f64; 8], f64);
ad_frame!("[u16;32]", [u16; 32], u16);
ad_frame!("[i16;8]", [i16; 8], i16);
ad_frame!("i16", i16, i16);
ad_frame!("u8", u8, u8);
ad_frame!("i64", i64, i64);
ad_frame!("[i32;2]", [i32; 2], i32);
ad_frame!("[f64;2]", [f64; 2], f64);
ad_frame!("[I24;2]", [I24; 2], I24);
ad_frame!("[U48;2]", [U48; 2], U48);
ad_frame!("[U24;3]", [U24; 3], U24);
ad_frame!("[i8;4]", [i8; 4], i8);
ad_frame!("[i32;12]", [i32; 12], i32);
ad_frame!("[f32;9]", [f32; 9], f32);
ad_frame!("[i16;12]", [i16; 12], i16);
