//! C06 — ring buffers are exact FIFO queues / delay lines.
//!
//! The run starts from an arbitrary *recovered* state (`from_raw_parts`), then a seeded history
//! over the whole public surface is executed against the real buffer and a `VecDeque` / rotating
//! `Vec` model.  After every operation every view of the buffer is compared with the model.

use dasp_ring_buffer::{Bounded, Fixed, Slice, SliceMut};
use simcore::{check, check_eq, Observer, Op, OpSpec, Rng, Scenario, Source, Violation};
use std::collections::VecDeque;

const POISON: u64 = 0xDEAD_0000_0000_0000;
const CANARY: u64 = 0xCAFE_F00D_0000_0000;
const GUARD: usize = 4;

/// Storage whose slice is the middle of a larger buffer with canaries on both sides.
#[derive(Clone)]
pub struct Guarded {
    buf: Vec<u64>,
    cap: usize,
}

impl Guarded {
    fn new(data: &[u64]) -> Self {
        let cap = data.len();
        let mut buf = Vec::with_capacity(cap + 2 * GUARD);
        for i in 0..GUARD {
            buf.push(CANARY | i as u64);
        }
        buf.extend_from_slice(data);
        for i in 0..GUARD {
            buf.push(CANARY | (GUARD + i) as u64);
        }
        Guarded { buf, cap }
    }
    fn intact(&self) -> bool {
        (0..GUARD).all(|i| self.buf[i] == CANARY | i as u64)
            && (0..GUARD).all(|i| self.buf[GUARD + self.cap + i] == CANARY | (GUARD + i) as u64)
            && self.buf.len() == self.cap + 2 * GUARD
    }
}

impl Slice for Guarded {
    type Element = u64;
    fn slice(&self) -> &[u64] {
        &self.buf[GUARD..GUARD + self.cap]
    }
}
impl SliceMut for Guarded {
    fn slice_mut(&mut self) -> &mut [u64] {
        let cap = self.cap;
        &mut self.buf[GUARD..GUARD + cap]
    }
}

/// What the harness needs from a storage type beyond `SliceMut`.
pub trait Store: SliceMut<Element = u64> + Sized {
    fn snapshot(&self) -> Option<Self>;
    fn intact(&self) -> bool {
        true
    }
}
impl Store for Vec<u64> {
    fn snapshot(&self) -> Option<Self> {
        Some(self.clone())
    }
}
impl Store for Box<[u64]> {
    fn snapshot(&self) -> Option<Self> {
        Some(self.clone())
    }
}
impl<const N: usize> Store for [u64; N] {
    fn snapshot(&self) -> Option<Self> {
        Some(*self)
    }
}
impl<'a> Store for &'a mut [u64] {
    fn snapshot(&self) -> Option<Self> {
        None
    }
}
impl Store for Guarded {
    fn snapshot(&self) -> Option<Self> {
        Some(self.clone())
    }
    fn intact(&self) -> bool {
        Guarded::intact(self)
    }
}

fn draw_cap(r: &mut Rng) -> i64 {
    match r.below(20) {
        0..=3 => 1,
        4..=7 => 2,
        8 | 9 => 3,
        // rare large capacities: around powers of two, primes
        10 => *r.pick(&[15i64, 16, 17, 31, 32, 33, 63, 64, 65, 97, 100, 127, 128, 129]),
        11 => r.range(10, 130),
        _ => r.range(1, 9),
    }
}
const MAX_CAP: i64 = 130;

macro_rules! with_array {
    ($cap:expr, $data:expr, $f:ident, $($rest:expr),*) => {
        match $cap {
            1 => $f(<[u64; 1]>::try_from(&$data[..]).unwrap(), $($rest),*),
            2 => $f(<[u64; 2]>::try_from(&$data[..]).unwrap(), $($rest),*),
            3 => $f(<[u64; 3]>::try_from(&$data[..]).unwrap(), $($rest),*),
            4 => $f(<[u64; 4]>::try_from(&$data[..]).unwrap(), $($rest),*),
            5 => $f(<[u64; 5]>::try_from(&$data[..]).unwrap(), $($rest),*),
            6 => $f(<[u64; 6]>::try_from(&$data[..]).unwrap(), $($rest),*),
            7 => $f(<[u64; 7]>::try_from(&$data[..]).unwrap(), $($rest),*),
            8 => $f(<[u64; 8]>::try_from(&$data[..]).unwrap(), $($rest),*),
            _ => $f(<[u64; 9]>::try_from(&$data[..]).unwrap(), $($rest),*),
        }
    };
}

// ---------------------------------------------------------------------------------------------
// Bounded
// ---------------------------------------------------------------------------------------------

pub struct BoundedScenario;

const B_PUSH: u8 = 0;
const B_POP: u8 = 1;
const B_GET: u8 = 2;
const B_GET_MUT: u8 = 3;
const B_INDEX: u8 = 4;
const B_INDEX_MUT: u8 = 5;
const B_ITER_MUT: u8 = 6;
const B_SLICES_MUT: u8 = 7;
const B_DRAIN: u8 = 8;
const B_EXTEND: u8 = 9;
const B_CLONE_SWAP: u8 = 10;
const B_REBUILD: u8 = 11;
const B_DRAIN_ADAPT: u8 = 12; // a = which Iterator method, b = n
const B_NOPS: usize = 13;

static B_OPS: [OpSpec; B_NOPS] = [
    OpSpec { name: "push", shrink: 0 },
    OpSpec { name: "pop", shrink: 0 },
    OpSpec { name: "get", shrink: 1 },
    OpSpec { name: "get_mut_write", shrink: 1 },
    OpSpec { name: "index", shrink: 1 },
    OpSpec { name: "index_mut_write", shrink: 1 },
    OpSpec { name: "iter_mut_write", shrink: 0 },
    OpSpec { name: "slices_mut_write", shrink: 0 },
    OpSpec { name: "drain_take", shrink: 1 },
    OpSpec { name: "extend", shrink: 1 },
    OpSpec { name: "clone_swap", shrink: 0 },
    OpSpec { name: "rebuild_from_raw_parts", shrink: 0 },
    OpSpec { name: "drain_iterator_method", shrink: 2 },
];
const B_WEIGHTS: [u32; B_NOPS] = [10, 6, 5, 3, 3, 2, 1, 1, 2, 2, 1, 1, 2];

// faults
const F_RECOVERED: usize = 0;
const F_EVICT: usize = 1;
const F_WRAP: usize = 2;
const F_POP_EMPTY: usize = 3;
const F_REBUILD: usize = 4;
const F_CLONE: usize = 5;
const F_PARTIAL_DRAIN: usize = 6;
// probes
const P_CAP1: usize = 0;
const P_BOTH_SLICES: usize = 1;
const P_GET_WRAPPED: usize = 2;
const P_FULL_NONZERO_START: usize = 3;
const P_EMPTY_NONZERO_START: usize = 4;

struct Tags(u64);
impl Tags {
    fn next(&mut self) -> u64 {
        self.0 += 1;
        self.0
    }
}

fn bounded_views<S: SnapshotBounded>(
    rb: &Bounded<S>,
    model: &VecDeque<u64>,
    cap: usize,
    obs: &mut Observer,
    last_k: u8,
) -> Result<(), Violation> {
    let want: Vec<u64> = model.iter().copied().collect();
    check_eq!(obs, rb.len(), want.len(), "bounded.len", "len()");
    check_eq!(obs, rb.max_len(), cap, "bounded.max_len", "max_len()");
    check_eq!(obs, rb.is_empty(), want.is_empty(), "bounded.is_empty", "is_empty()");
    check_eq!(obs, rb.is_full(), want.len() == cap, "bounded.is_full", "is_full()");
    let it: Vec<u64> = rb.iter().copied().collect();
    check_eq!(obs, it, want, "bounded.iter", "iter() oldest-first");
    let (a, b) = rb.slices();
    let mut cat: Vec<u64> = a.to_vec();
    cat.extend_from_slice(b);
    check_eq!(obs, cat, want, "bounded.slices", "slices() concatenated");
    if !a.is_empty() && !b.is_empty() {
        obs.probe(P_BOTH_SLICES);
    }
    for i in 0..want.len() {
        if i >= a.len() {
            obs.probe(P_GET_WRAPPED);
        }
        let g = rb.get(i).copied();
        check_eq!(obs, g, Some(want[i]), "bounded.get", "get({}) of {} live", i, want.len());
    }
    for i in want.len()..want.len() + 2 {
        check_eq!(obs, rb.get(i).copied(), None, "bounded.get-none", "get({}) beyond len", i);
    }
    for v in &it {
        check!(
            obs,
            v & 0xFFFF_0000_0000_0000 != POISON && v & 0xFFFF_FFFF_0000_0000 != CANARY,
            "bounded.dead-slot-exposed",
            "iter() exposed a slot holding no live element: {:#x}",
            v
        );
    }
    // representation invariant + guard zones, through a snapshot of the storage
    let mut abs = (cap as u64) << 16 | (want.len() as u64) << 8;
    if let Some(snap) = S::snapshot_bounded(rb) {
        let (start, len, data) = unsafe { snap.into_raw_parts() };
        check!(obs, start < cap, "bounded.raw-start", "start {} not < capacity {}", start, cap);
        check!(obs, len <= cap, "bounded.raw-len", "len {} > capacity {}", len, cap);
        check_eq!(obs, len, want.len(), "bounded.raw-len-model", "raw len");
        check!(obs, data.intact(), "bounded.guard-zone", "write outside the backing slice");
        check_eq!(obs, data.slice().len(), cap, "bounded.storage-resized", "storage length");
        abs |= start as u64;
        if start != 0 {
            obs.inflight();
            if len == cap {
                obs.probe(P_FULL_NONZERO_START);
            }
            if len == 0 {
                obs.probe(P_EMPTY_NONZERO_START);
            }
        }
        if start + len > cap {
            obs.fault(F_WRAP);
        }
    } else if !a.is_empty() && !b.is_empty() {
        obs.inflight();
        obs.fault(F_WRAP);
    }
    obs.state(abs, last_k);
    Ok(())
}

/// Helper so that `Bounded<S>` can be cloned when `S` can.
pub trait SnapshotBounded: Store {
    fn snapshot_bounded(rb: &Bounded<Self>) -> Option<Bounded<Self>>;
    fn snapshot_fixed(rb: &Fixed<Self>) -> Option<Fixed<Self>>;
}
macro_rules! impl_snapshot_clone {
    ($($t:ty),*) => {$(
        impl SnapshotBounded for $t {
            fn snapshot_bounded(rb: &Bounded<Self>) -> Option<Bounded<Self>> { Some(rb.clone()) }
            fn snapshot_fixed(rb: &Fixed<Self>) -> Option<Fixed<Self>> { Some(rb.clone()) }
        }
    )*};
}
impl_snapshot_clone!(Vec<u64>, Box<[u64]>, Guarded);
impl<const N: usize> SnapshotBounded for [u64; N] {
    fn snapshot_bounded(rb: &Bounded<Self>) -> Option<Bounded<Self>> {
        Some(rb.clone())
    }
    fn snapshot_fixed(rb: &Fixed<Self>) -> Option<Fixed<Self>> {
        Some(rb.clone())
    }
}
impl<'a> SnapshotBounded for &'a mut [u64] {
    fn snapshot_bounded(_: &Bounded<Self>) -> Option<Bounded<Self>> {
        None
    }
    fn snapshot_fixed(_: &Fixed<Self>) -> Option<Fixed<Self>> {
        None
    }
}
fn drive_bounded<S: SnapshotBounded>(
    data: S,
    start: usize,
    len: usize,
    steps: usize,
    opmask: u64,
    src: &mut Source,
    obs: &mut Observer,
) -> Result<(), Violation> {
    let cap = data.slice().len();
    let mut rb = Bounded::from_raw_parts(start, len, data);
    let mut model: VecDeque<u64> = (0..len as u64).map(|i| 1000 + i).collect();
    let mut tags = Tags(0);
    if start != 0 || len != 0 {
        obs.fault(F_RECOVERED);
    }
    if cap == 1 {
        obs.probe(P_CAP1);
    }
    bounded_views(&rb, &model, cap, obs, 255)?;
    let mut weights = B_WEIGHTS;
    for k in 0..B_NOPS {
        if opmask >> k & 1 == 0 {
            weights[k] = 0;
        }
    }
    weights[B_PUSH as usize] = B_WEIGHTS[B_PUSH as usize];
    let mut done = 0usize;
    loop {
        let mlen = model.len();
        let op = src.next_op(|r| {
            if done >= steps {
                return None;
            }
            let k = r.weighted(&weights) as u8;
            Some(match k {
                B_GET | B_GET_MUT => Op::ka(k, r.range(0, mlen as i64 + 1)),
                B_INDEX | B_INDEX_MUT => Op::ka(k, r.range(0, mlen.max(1) as i64 - 1)),
                B_DRAIN => Op::ka(k, r.range(0, cap as i64 + 1)),
                B_DRAIN_ADAPT => Op::kab(k, r.range(0, 5), r.range(0, mlen as i64 + 2)),
                B_EXTEND => Op::ka(k, r.range(0, cap as i64 + 2)),
                _ => Op::k(k),
            })
        });
        let Some(op) = op else { break };
        done += 1;
        obs.tick(op.k);
        obs.note(op.a as u64);
        match op.k {
            B_PUSH => {
                let v = tags.next();
                let got = rb.push(v);
                let want = if model.len() == cap {
                    obs.fault(F_EVICT);
                    model.pop_front()
                } else {
                    None
                };
                model.push_back(v);
                check_eq!(obs, got, want, "bounded.push-return", "push({}) return", v);
            }
            B_POP => {
                let got = rb.pop();
                let want = model.pop_front();
                if want.is_none() {
                    obs.fault(F_POP_EMPTY);
                }
                check_eq!(obs, got, want, "bounded.pop-return", "pop()");
            }
            B_GET => {
                let i = op.a.max(0) as usize;
                let got = rb.get(i).copied();
                let want = model.get(i).copied();
                check_eq!(obs, got, want, "bounded.get", "get({}) of {} live", i, model.len());
            }
            B_GET_MUT => {
                let i = op.a.max(0) as usize;
                let v = tags.next();
                let want = model.get(i).copied();
                let got = rb.get_mut(i).map(|slot| {
                    let old = *slot;
                    *slot = v;
                    old
                });
                check_eq!(obs, got, want, "bounded.get_mut", "get_mut({}) of {} live", i, model.len());
                if let Some(m) = model.get_mut(i) {
                    *m = v;
                }
            }
            B_INDEX => {
                let i = op.a.max(0) as usize;
                if i >= model.len() {
                    // indexing out of range is outside the property: skip
                    src.skip_last();
                    obs.skipped();
                    continue;
                }
                let got = rb[i];
                check_eq!(obs, got, model[i], "bounded.index", "rb[{}] of {} live", i, model.len());
            }
            B_INDEX_MUT => {
                let i = op.a.max(0) as usize;
                if i >= model.len() {
                    src.skip_last();
                    obs.skipped();
                    continue;
                }
                let v = tags.next();
                let old = rb[i];
                rb[i] = v;
                check_eq!(obs, old, model[i], "bounded.index_mut", "rb[{}] before write", i);
                model[i] = v;
            }
            B_ITER_MUT => {
                let mut n = 0;
                for (slot, m) in rb.iter_mut().zip(model.iter_mut()) {
                    let v = tags.next();
                    check_eq!(obs, *slot, *m, "bounded.iter_mut", "iter_mut() item {}", n);
                    *slot = v;
                    *m = v;
                    n += 1;
                }
                check_eq!(obs, n, model.len(), "bounded.iter_mut-count", "iter_mut() count");
                let extra = rb.iter_mut().count();
                check_eq!(obs, extra, model.len(), "bounded.iter_mut-count", "iter_mut() count");
            }
            B_SLICES_MUT => {
                let (a, b) = rb.slices_mut();
                let total = a.len() + b.len();
                check_eq!(obs, total, model.len(), "bounded.slices_mut-len", "slices_mut() total");
                let mut i = 0;
                for slot in a.iter_mut().chain(b.iter_mut()) {
                    let v = tags.next();
                    check_eq!(obs, *slot, model[i], "bounded.slices_mut", "slices_mut() item {}", i);
                    *slot = v;
                    model[i] = v;
                    i += 1;
                }
            }
            B_DRAIN => {
                let k = op.a.max(0) as usize;
                let before = model.len();
                let hint = rb.drain().len();
                check_eq!(obs, hint, before, "bounded.drain-len", "drain().len()");
                let got: Vec<u64> = rb.drain().take(k).collect();
                let mut want = Vec::new();
                for _ in 0..k {
                    if let Some(x) = model.pop_front() {
                        want.push(x);
                    }
                }
                if k < before {
                    obs.fault(F_PARTIAL_DRAIN);
                }
                check_eq!(obs, got, want, "bounded.drain", "drain().take({})", k);
            }
            B_DRAIN_ADAPT => {
                // the provided Iterator methods must behave as their default definitions over
                // next() == pop(): whatever they skip is popped, whatever they do not reach stays
                let n = op.b.max(0) as usize;
                let mut pop_n = |m: &mut VecDeque<u64>, k: usize| -> Option<u64> {
                    // default Iterator::nth(k): k + 1 calls of next(), the last one is returned
                    let mut last = None;
                    for _ in 0..=k {
                        last = m.pop_front();
                        if last.is_none() {
                            break;
                        }
                    }
                    last
                };
                match op.a.rem_euclid(6) {
                    0 => {
                        let got = rb.drain().nth(n);
                        let want = pop_n(&mut model, n);
                        check_eq!(obs, got, want, "bounded.drain-nth", "drain().nth({})", n);
                    }
                    1 => {
                        let got = rb.drain().skip(n).next();
                        let want = pop_n(&mut model, n);
                        check_eq!(obs, got, want, "bounded.drain-skip", "drain().skip({}).next()", n);
                    }
                    2 => {
                        let step = n + 1;
                        let got: Vec<u64> = rb.drain().step_by(step).take(2).collect();
                        let mut want = Vec::new();
                        if let Some(x) = model.pop_front() {
                            want.push(x);
                            if let Some(y) = pop_n(&mut model, step - 1) {
                                want.push(y);
                            }
                        }
                        check_eq!(obs, got, want, "bounded.drain-step-by", "drain().step_by({}).take(2)", step);
                    }
                    3 => {
                        let got = rb.drain().count();
                        let want = model.len();
                        model.clear();
                        check_eq!(obs, got, want, "bounded.drain-count", "drain().count()");
                    }
                    4 => {
                        let got = rb.drain().last();
                        let want = model.back().copied();
                        model.clear();
                        check_eq!(obs, got, want, "bounded.drain-last", "drain().last()");
                    }
                    _ => {
                        let d = rb.drain();
                        let (lo, hi) = d.size_hint();
                        check_eq!(obs, (lo, hi), (model.len(), Some(model.len())), "bounded.drain-size-hint", "drain().size_hint()");
                    }
                }
            }
            B_EXTEND => {
                let k = op.a.max(0) as usize;
                let vs: Vec<u64> = (0..k).map(|_| tags.next()).collect();
                rb.extend(loose(vs.iter().copied(), vs.len(), k + model.len()));
                for v in vs {
                    if model.len() == cap {
                        obs.fault(F_EVICT);
                        model.pop_front();
                    }
                    model.push_back(v);
                }
            }
            B_CLONE_SWAP => match S::snapshot_bounded(&rb) {
                Some(c) => {
                    obs.fault(F_CLONE);
                    rb = c;
                }
                None => {
                    src.skip_last();
                    obs.skipped();
                    continue;
                }
            },
            B_REBUILD => {
                // restart carrying only the durable representation
                let (s, l, d) = unsafe { rb.into_raw_parts() };
                obs.fault(F_REBUILD);
                {
                    // the durable representation read through borrowed, immutable storage
                    let ro = Bounded::from_raw_parts(s, l, d.slice());
                    let seen: Vec<u64> = ro.iter().copied().collect();
                    let want: Vec<u64> = model.iter().copied().collect();
                    check_eq!(obs, (ro.len(), seen), (want.len(), want), "bounded.readonly-view", "(len, contents) of a Bounded<&[T]> over the same parts");
                    let (a, b) = ro.slices();
                    let cat: Vec<u64> = a.iter().chain(b.iter()).copied().collect();
                    check_eq!(obs, cat, model.iter().copied().collect::<Vec<u64>>(), "bounded.readonly-view", "slices() of a Bounded<&[T]> over the same parts");
                    if l > 0 {
                        check_eq!(obs, ro.get(done % l).copied(), model.get(done % l).copied(), "bounded.readonly-view", "get({}) of a Bounded<&[T]> over the same parts", done % l);
                    }
                }
                rb = if done % 2 == 0 {
                    Bounded::from_raw_parts(s, l, d)
                } else {
                    // the same valid triple through the unchecked constructor
                    unsafe { Bounded::from_raw_parts_unchecked(s, l, d) }
                };
            }
            _ => {
                src.skip_last();
                obs.skipped();
                continue;
            }
        }
        bounded_views(&rb, &model, cap, obs, op.k)?;
    }
    Ok(())
}

impl Scenario for BoundedScenario {
    fn name(&self) -> &'static str {
        "ringbuf-bounded"
    }
    fn property(&self) -> &'static str {
        "C06"
    }
    fn ops(&self) -> &'static [OpSpec] {
        &B_OPS
    }
    fn faults(&self) -> &'static [&'static str] {
        &[
            "recovered-state(start,len != 0,0)",
            "evict-on-full-push",
            "physical-wrap(start+len > cap)",
            "pop-empty",
            "rebuild-from-raw-parts",
            "clone-swap",
            "partial-drain",
        ]
    }
    fn probes(&self) -> &'static [&'static str] {
        &[
            "capacity==1",
            "both slices non-empty",
            "get() at physically wrapped index",
            "full with start != 0",
            "empty with start != 0",
        ]
    }
    fn rule(&self) -> &'static str {
        "case = (capacity 1..9, storage kind, recovered (start,len), enabled-op mask, seeded op history); \
         non-trivial = at least one fault kind fired and at least one operation ran while start != 0 or the \
         live range wrapped; distinct = distinct hash of the full (ops, observations) trace"
    }
    fn real(&self) -> &'static [&'static str] {
        &["dasp_ring_buffer::Bounded (all public methods)", "Slice/SliceMut impls for Vec, Box<[T]>, [T;N], &mut [T]"]
    }
    fn stubs(&self) -> &'static [&'static str] {
        &["GuardedSlice storage (harness Slice impl with canary zones)", "VecDeque reference model"]
    }
    fn assumptions(&self) -> &'static [&'static str] {
        &["Index/IndexMut are only exercised in range (out-of-range panics are outside the property)"]
    }
    fn runs(&self, tier: &str) -> u64 {
        if tier == "quick" {
            1_000_000
        } else {
            30_000_000
        }
    }
    fn run(&self, src: &mut Source, obs: &mut Observer) -> Result<(), Violation> {
        let cap = src.cfg("cap", 1, MAX_CAP, draw_cap) as usize;
        // 0 Vec, 1 Box<[T]>, 2 &mut [T], 3 guarded slice, 4 array, 5 Vec with spare capacity
        let storage = src.cfg("storage", 0, 5, |r| r.range(0, 5));
        let storage = if cap > 9 && storage == 4 { 3 } else { storage };
        let start = src.cfg("start", 0, cap as i64 - 1, |r| {
            if r.chance(1, 4) {
                0
            } else {
                r.range(0, cap as i64 - 1)
            }
        }) as usize;
        let len = src.cfg("len", 0, cap as i64, |r| match r.below(4) {
            0 => 0,
            1 => cap as i64,
            _ => r.range(0, cap as i64),
        }) as usize;
        let steps = src.cfg("steps", 0, 3000, |r| if r.chance(1, 40) { r.range(500, 3000) } else { r.range(1, 120) }) as usize;
        let opmask = src.cfg("opmask", 0, (1 << B_NOPS) - 1, |r| {
            (r.next_u64() | r.next_u64()) as i64 & ((1 << B_NOPS) - 1)
        }) as u64;
        let mut data = vec![0u64; cap];
        for (i, d) in data.iter_mut().enumerate() {
            *d = POISON | i as u64;
        }
        for i in 0..len {
            data[(start + i) % cap] = 1000 + i as u64;
        }
        // constructor: 0 from_raw_parts (recovered state), 1 From<S> (empty), 2 from_full, 3 FromIterator
        let ctor = src.cfg("ctor", 0, 3, |r| if r.chance(3, 4) { 0 } else { r.range(1, 3) });
        obs.note(cap as u64 * 1000 + storage as u64 * 100 + start as u64 * 10 + len as u64 + ctor as u64 * 7919);
        if ctor != 0 {
            let full: Vec<u64> = (0..cap as u64).map(|i| 1000 + i).collect();
            let (rb, live) = match ctor {
                1 => (Bounded::from(data.clone()), 0),
                2 => (Bounded::from_full(full), cap),
                _ => (full.iter().copied().collect::<Bounded<Vec<u64>>>(), 0),
            };
            // check that the constructor produced the documented state, then continue from it
            // what the constructor promises: capacity, number of live elements and their order
            // (the representation — where `start` points — is its own business)
            let seen: Vec<u64> = rb.iter().copied().collect();
            let want: Vec<u64> = (0..live as u64).map(|i| 1000 + i).collect();
            check_eq!(obs, (rb.len(), rb.max_len(), seen), (live, cap, want), "bounded.constructor", "(len, capacity, contents) after constructor {}", ctor);
            let (s0, l0, d0) = unsafe { rb.into_raw_parts() };
            return drive_bounded(d0, s0, l0, steps, opmask, src, obs);
        }
        match storage {
            0 => drive_bounded(data, start, len, steps, opmask, src, obs),
            1 => drive_bounded(data.into_boxed_slice(), start, len, steps, opmask, src, obs),
            2 => {
                let mut d = data;
                drive_bounded(&mut d[..], start, len, steps, opmask, src, obs)
            }
            3 => drive_bounded(Guarded::new(&data), start, len, steps, opmask, src, obs),
            5 => {
                // a Vec whose allocation is larger than its length: the slice, not the allocation, is the buffer
                let mut v = Vec::with_capacity(cap + 1 + cap / 2);
                v.extend_from_slice(&data);
                drive_bounded(v, start, len, steps, opmask, src, obs)
            }
            _ => with_array!(cap, data, drive_bounded, start, len, steps, opmask, src, obs),
        }
    }
}

// ---------------------------------------------------------------------------------------------
// Fixed
// ---------------------------------------------------------------------------------------------

/// An iterator whose `size_hint` is legal but loose: the lower bound under-reports and the upper bound
/// over-reports (as `filter`, `take_while` or `flat_map` do).  `Extend` and the constructors must not
/// trust either bound beyond what it promises.
struct LooseHint<I> {
    inner: I,
    left: usize,
    mode: usize,
}
impl<I: Iterator> Iterator for LooseHint<I> {
    type Item = I::Item;
    fn next(&mut self) -> Option<I::Item> {
        let v = self.inner.next();
        if v.is_some() {
            self.left -= 1;
        }
        v
    }
    fn size_hint(&self) -> (usize, Option<usize>) {
        match self.mode % 4 {
            0 => (self.left, Some(self.left)),
            1 => (0, None),
            2 => (self.left / 2, Some(self.left * 3 + 7)),
            _ => (0, Some(self.left + 100)),
        }
    }
}
fn loose<I: Iterator>(inner: I, left: usize, mode: usize) -> LooseHint<I> {
    LooseHint { inner, left, mode }
}

/// Ownership side of `Fixed::push` (the buffer is not restricted to `Copy` elements): the element that
/// `push` hands back must be the live oldest element — not a copy of something already destroyed — and
/// every element ever stored is destroyed exactly once.
fn fixed_ownership(n: usize, first: usize, pushes: usize, obs: &mut Observer) -> Result<(), Violation> {
    use std::cell::Cell;
    // (the tracked element owns nothing: a library that destroys an element twice must show up as a count,
    // not as heap corruption inside the harness)
    thread_local! {
        static DROPS: [Cell<u32>; 256] = const { [const { Cell::new(0) }; 256] };
    }
    struct Tracked {
        id: usize,
    }
    impl Drop for Tracked {
        fn drop(&mut self) {
            DROPS.with(|d| d[self.id].set(d[self.id].get() + 1));
        }
    }
    let total = (n + pushes).min(256);
    let pushes = total - n;
    DROPS.with(|d| d.iter().for_each(|c| c.set(0)));
    let data: Vec<Tracked> = (0..n).map(|id| Tracked { id }).collect();
    // oldest-first order of the initial content when the ring starts at `first`
    let mut order: std::collections::VecDeque<usize> = (0..n).map(|i| (first + i) % n).collect();
    let mut rb = Fixed::from_raw_parts(first % n, data);
    for k in 0..pushes {
        let id = n + k;
        let back = rb.push(Tracked { id });
        let want = order.pop_front().unwrap();
        order.push_back(id);
        let (back_id, already) = (back.id, DROPS.with(|d| d[back.id.min(255)].get()));
        drop(back);
        check_eq!(obs, back_id, want, "fixed.push-ownership", "element returned by push {} of a non-Copy ring of {}", k, n);
        check_eq!(obs, already, 0, "fixed.push-ownership", "the element handed back by push {} (id {}) had already been destroyed this many times", k, back_id);
    }
    drop(rb);
    let counts: Vec<u32> = DROPS.with(|d| (0..total).map(|i| d[i].get()).collect());
    if let Some(bad) = (0..total).find(|&i| counts[i] != 1) {
        check!(obs, false, "fixed.push-ownership", "element {} of a non-Copy ring of {} was destroyed {} times after {} pushes and dropping the ring", bad, n, counts[bad], pushes);
    }
    Ok(())
}

pub struct FixedScenario;

const X_PUSH: u8 = 0;
const X_GET: u8 = 1;
const X_GET_MUT: u8 = 2;
const X_INDEX: u8 = 3;
const X_INDEX_MUT: u8 = 4;
const X_SET_FIRST: u8 = 5;
const X_ITER_LOOP: u8 = 6;
const X_ITER_MUT: u8 = 7;
const X_SLICES_MUT: u8 = 8;
const X_EXTEND: u8 = 9;
const X_CLONE_SWAP: u8 = 10;
const X_REBUILD: u8 = 11;
const X_NOPS: usize = 12;

static X_OPS: [OpSpec; X_NOPS] = [
    OpSpec { name: "push", shrink: 0 },
    OpSpec { name: "get", shrink: 1 },
    OpSpec { name: "get_mut_write", shrink: 1 },
    OpSpec { name: "index", shrink: 1 },
    OpSpec { name: "index_mut_write", shrink: 1 },
    OpSpec { name: "set_first", shrink: 1 },
    OpSpec { name: "iter_loop_take", shrink: 1 },
    OpSpec { name: "iter_mut_write", shrink: 0 },
    OpSpec { name: "slices_mut_write", shrink: 0 },
    OpSpec { name: "extend", shrink: 1 },
    OpSpec { name: "clone_swap", shrink: 0 },
    OpSpec { name: "rebuild_from_raw_parts", shrink: 0 },
];
const X_WEIGHTS: [u32; X_NOPS] = [12, 4, 3, 3, 2, 3, 2, 1, 1, 2, 1, 1];

const XF_RECOVERED: usize = 0;
const XF_WRAP_PUSH: usize = 1;
const XF_SET_FIRST: usize = 2;
const XF_INDEX_WRAP: usize = 3;
const XF_REBUILD: usize = 4;
const XF_CLONE: usize = 5;
const XP_N1: usize = 0;
const XP_LOOPED: usize = 1;
const XP_PUSH_RETURNS_PUSHED: usize = 2;
const XP_SET_FIRST_GE_N: usize = 3;
const XP_HUGE_INDEX: usize = 4;

fn fixed_views<S: SnapshotBounded>(
    rb: &Fixed<S>,
    model: &Vec<u64>,
    obs: &mut Observer,
    last_k: u8,
) -> Result<(), Violation> {
    let n = model.len();
    check_eq!(obs, rb.len(), n, "fixed.len", "len()");
    let it: Vec<u64> = rb.iter().copied().collect();
    check_eq!(obs, &it, model, "fixed.iter", "iter() oldest-first");
    let (a, b) = rb.slices();
    let mut cat = a.to_vec();
    cat.extend_from_slice(b);
    check_eq!(obs, &cat, model, "fixed.slices", "slices() concatenated");
    for i in 0..n {
        check_eq!(obs, *rb.get(i), model[i], "fixed.get", "get({})", i);
    }
    let lp: Vec<u64> = rb.iter_loop().take(2 * n + 1).copied().collect();
    for (i, v) in lp.iter().enumerate() {
        check_eq!(obs, *v, model[i % n], "fixed.iter_loop", "iter_loop() item {}", i);
    }
    for v in &it {
        check!(
            obs,
            v & 0xFFFF_FFFF_0000_0000 != CANARY,
            "fixed.dead-slot-exposed",
            "iter() exposed memory outside the backing slice: {:#x}",
            v
        );
    }
    let mut abs = (n as u64) << 8;
    if let Some(snap) = S::snapshot_fixed(rb) {
        let (first, data) = snap.into_raw_parts();
        check!(obs, first < n, "fixed.raw-first", "first {} not < len {}", first, n);
        check!(obs, data.intact(), "fixed.guard-zone", "write outside the backing slice");
        check_eq!(obs, data.slice().len(), n, "fixed.storage-resized", "storage length");
        abs |= first as u64;
        if first != 0 {
            obs.inflight();
        }
    } else if !b.is_empty() {
        obs.inflight();
    }
    obs.state(abs, last_k);
    Ok(())
}

fn drive_fixed<S: SnapshotBounded>(
    data: S,
    first: usize,
    steps: usize,
    opmask: u64,
    src: &mut Source,
    obs: &mut Observer,
) -> Result<(), Violation> {
    let n = data.slice().len();
    // model: oldest-first contents
    let mut model: Vec<u64> = (0..n).map(|i| data.slice()[(first + i) % n]).collect();
    let mut rb = Fixed::from_raw_parts(first, data);
    let mut tags = Tags(0);
    // history of everything ever at the back, to state "push returns the value pushed N pushes ago"
    let mut pushed: Vec<u64> = Vec::new();
    let mut since_disturb = 0usize; // pushes since the last set_first / write op
    if first != 0 {
        obs.fault(XF_RECOVERED);
    }
    if n == 1 {
        obs.probe(XP_N1);
    }
    fixed_views(&rb, &model, obs, 255)?;
    let mut weights = X_WEIGHTS;
    for k in 0..X_NOPS {
        if opmask >> k & 1 == 0 {
            weights[k] = 0;
        }
    }
    weights[X_PUSH as usize] = X_WEIGHTS[X_PUSH as usize];
    let mut done = 0;
    loop {
        let op = src.next_op(|r| {
            if done >= steps {
                return None;
            }
            let k = r.weighted(&weights) as u8;
            Some(match k {
                X_GET | X_GET_MUT | X_INDEX | X_INDEX_MUT | X_SET_FIRST => {
                    if r.chance(1, 12) {
                        // "any index wraps modulo N": far beyond the length, up to usize::MAX
                        let big: [u64; 8] = [1 << 32, (1 << 32) + 1, (1 << 33) - 1, 1 << 40, 1 << 63, u64::MAX, u64::MAX - 1, u64::MAX / 3];
                        let b = *r.pick(&big);
                        Op::ka(k, b.wrapping_add(r.below(8)).max(1 << 32) as i64)
                    } else {
                        Op::ka(k, r.range(0, 4 * n as i64))
                    }
                }
                X_ITER_LOOP => Op::ka(k, r.range(0, 3 * n as i64)),
                X_EXTEND => Op::ka(k, r.range(0, 2 * n as i64 + 1)),
                _ => Op::k(k),
            })
        });
        let Some(op) = op else { break };
        done += 1;
        obs.tick(op.k);
        obs.note(op.a as u64);
        // index arguments are usize: the replay format stores them as i64 bit patterns
        let arg = if matches!(op.k, X_GET | X_GET_MUT | X_INDEX | X_INDEX_MUT | X_SET_FIRST) { op.a as u64 as usize } else { op.a.max(0) as usize };
        if arg as u64 >= 1 << 32 {
            obs.probe(XP_HUGE_INDEX);
        }
        match op.k {
            X_PUSH => {
                let v = tags.next();
                let got = rb.push(v);
                let want = model.remove(0);
                model.push(v);
                check_eq!(obs, got, want, "fixed.push-return", "push({}) return (element at index 0)", v);
                pushed.push(v);
                since_disturb += 1;
                if since_disturb > n {
                    // delay-line reading of the property
                    let delayed = pushed[pushed.len() - 1 - n];
                    obs.probe(XP_PUSH_RETURNS_PUSHED);
                    check_eq!(obs, got, delayed, "fixed.delay-line", "push returns the value pushed {} pushes earlier", n);
                }
                check_eq!(obs, *rb.get(n - 1), v, "fixed.push-newest", "pushed element is newest at index N-1");
            }
            X_GET => {
                if arg >= n {
                    obs.fault(XF_INDEX_WRAP);
                }
                check_eq!(obs, *rb.get(arg), model[arg % n], "fixed.get", "get({}) wraps modulo {}", arg, n);
            }
            X_GET_MUT => {
                if arg >= n {
                    obs.fault(XF_INDEX_WRAP);
                }
                let v = tags.next();
                let slot = rb.get_mut(arg);
                let old = *slot;
                *slot = v;
                check_eq!(obs, old, model[arg % n], "fixed.get_mut", "get_mut({}) wraps modulo {}", arg, n);
                model[arg % n] = v;
                since_disturb = 0;
            }
            X_INDEX => {
                if arg >= n {
                    obs.fault(XF_INDEX_WRAP);
                }
                check_eq!(obs, rb[arg], model[arg % n], "fixed.index", "rb[{}] wraps modulo {}", arg, n);
            }
            X_INDEX_MUT => {
                if arg >= n {
                    obs.fault(XF_INDEX_WRAP);
                }
                let v = tags.next();
                let old = rb[arg];
                rb[arg] = v;
                check_eq!(obs, old, model[arg % n], "fixed.index_mut", "rb[{}] before write", arg);
                model[arg % n] = v;
                since_disturb = 0;
            }
            X_SET_FIRST => {
                // set_first(i) takes a *physical* index; recover the physical layout from the
                // model: physical index p holds model[(p - first) mod n].  We do not know `first`
                // without a snapshot, so derive it from slices(): the second slice is the physical
                // prefix, whose length is `first`.
                let cur_first = rb.slices().1.len();
                rb.set_first(arg);
                let new_first = arg % n;
                obs.fault(XF_SET_FIRST);
                if arg >= n {
                    obs.probe(XP_SET_FIRST_GE_N);
                }
                // physical array from the old model
                let mut phys = vec![0u64; n];
                for (i, v) in model.iter().enumerate() {
                    phys[(cur_first + i) % n] = *v;
                }
                for i in 0..n {
                    model[i] = phys[(new_first + i) % n];
                }
                since_disturb = 0;
            }
            X_ITER_LOOP => {
                let got: Vec<u64> = rb.iter_loop().take(arg).copied().collect();
                check_eq!(obs, got.len(), arg, "fixed.iter_loop-endless", "iter_loop().take({}) count", arg);
                if arg > n {
                    obs.probe(XP_LOOPED);
                }
                for (i, v) in got.iter().enumerate() {
                    check_eq!(obs, *v, model[i % n], "fixed.iter_loop", "iter_loop() item {}", i);
                }
            }
            X_ITER_MUT => {
                let mut c = 0;
                for (slot, m) in rb.iter_mut().zip(model.iter_mut()) {
                    let v = tags.next();
                    check_eq!(obs, *slot, *m, "fixed.iter_mut", "iter_mut() item {}", c);
                    *slot = v;
                    *m = v;
                    c += 1;
                }
                check_eq!(obs, c, n, "fixed.iter_mut-count", "iter_mut() count");
                check_eq!(obs, rb.iter_mut().count(), n, "fixed.iter_mut-count", "iter_mut() count");
                since_disturb = 0;
            }
            X_SLICES_MUT => {
                let (a, b) = rb.slices_mut();
                check_eq!(obs, a.len() + b.len(), n, "fixed.slices_mut-len", "slices_mut() total");
                let mut i = 0;
                for slot in a.iter_mut().chain(b.iter_mut()) {
                    let v = tags.next();
                    check_eq!(obs, *slot, model[i], "fixed.slices_mut", "slices_mut() item {}", i);
                    *slot = v;
                    model[i] = v;
                    i += 1;
                }
                since_disturb = 0;
            }
            X_EXTEND => {
                let vs: Vec<u64> = (0..arg).map(|_| tags.next()).collect();
                rb.extend(loose(vs.iter().copied(), vs.len(), arg + since_disturb));
                for v in vs {
                    model.remove(0);
                    model.push(v);
                    pushed.push(v);
                    since_disturb += 1;
                }
            }
            X_CLONE_SWAP => match S::snapshot_fixed(&rb) {
                Some(c) => {
                    obs.fault(XF_CLONE);
                    rb = c;
                }
                None => {
                    src.skip_last();
                    obs.skipped();
                    continue;
                }
            },
            X_REBUILD => {
                let (f, d) = rb.into_raw_parts();
                obs.fault(XF_REBUILD);
                {
                    let ro = Fixed::from_raw_parts(f, d.slice());
                    let seen: Vec<u64> = ro.iter().copied().collect();
                    check_eq!(obs, (ro.len(), seen), (n, model.clone()), "fixed.readonly-view", "(len, contents) of a Fixed<&[T]> over the same parts");
                    let (a, b) = ro.slices();
                    let cat: Vec<u64> = a.iter().chain(b.iter()).copied().collect();
                    check_eq!(obs, cat, model.clone(), "fixed.readonly-view", "slices() of a Fixed<&[T]> over the same parts");
                    check_eq!(obs, *ro.get(done), model[done % n], "fixed.readonly-view", "get({}) of a Fixed<&[T]> over the same parts", done);
                }
                rb = if done % 2 == 0 {
                    Fixed::from_raw_parts(f, d)
                } else {
                    unsafe { Fixed::from_raw_parts_unchecked(f, d) }
                };
            }
            _ => {
                src.skip_last();
                obs.skipped();
                continue;
            }
        }
        if op.k == X_PUSH || op.k == X_EXTEND {
            if rb.slices().1.is_empty() {
                obs.fault(XF_WRAP_PUSH);
            }
        }
        fixed_views(&rb, &model, obs, op.k)?;
    }
    Ok(())
}

impl Scenario for FixedScenario {
    fn name(&self) -> &'static str {
        "ringbuf-fixed"
    }
    fn property(&self) -> &'static str {
        "C06"
    }
    fn ops(&self) -> &'static [OpSpec] {
        &X_OPS
    }
    fn faults(&self) -> &'static [&'static str] {
        &[
            "recovered-state(first != 0)",
            "push wraps first to 0",
            "set_first",
            "index >= N (wraps)",
            "rebuild-from-raw-parts",
            "clone-swap",
        ]
    }
    fn probes(&self) -> &'static [&'static str] {
        &[
            "N==1",
            "iter_loop taken past N",
            "push return checked against value pushed N pushes earlier",
            "set_first(i >= N)",
            "index >= 2^32 (up to usize::MAX)",
        ]
    }
    fn rule(&self) -> &'static str {
        "case = (length N 1..9, storage kind, recovered first index, enabled-op mask, seeded op history); \
         non-trivial = at least one fault kind fired and at least one operation ran while first != 0; \
         distinct = distinct hash of the full (ops, observations) trace"
    }
    fn real(&self) -> &'static [&'static str] {
        &["dasp_ring_buffer::Fixed (all public methods)"]
    }
    fn stubs(&self) -> &'static [&'static str] {
        &["GuardedSlice storage (harness Slice impl with canary zones)", "rotating Vec reference model"]
    }
    fn assumptions(&self) -> &'static [&'static str] {
        &[]
    }
    fn runs(&self, tier: &str) -> u64 {
        if tier == "quick" {
            1_000_000
        } else {
            30_000_000
        }
    }
    fn run(&self, src: &mut Source, obs: &mut Observer) -> Result<(), Violation> {
        let n = src.cfg("n", 1, MAX_CAP, draw_cap) as usize;
        let storage = src.cfg("storage", 0, 5, |r| r.range(0, 5));
        let storage = if n > 9 && storage == 4 { 3 } else { storage };
        let first = src.cfg("first", 0, n as i64 - 1, |r| {
            if r.chance(1, 4) {
                0
            } else {
                r.range(0, n as i64 - 1)
            }
        }) as usize;
        let steps = src.cfg("steps", 0, 3000, |r| if r.chance(1, 40) { r.range(500, 3000) } else { r.range(1, 120) }) as usize;
        let opmask = src.cfg("opmask", 0, (1 << X_NOPS) - 1, |r| {
            (r.next_u64() | r.next_u64()) as i64 & ((1 << X_NOPS) - 1)
        }) as u64;
        let data: Vec<u64> = (0..n as u64).map(|i| 1000 + i).collect();
        if n <= 40 && src.cfg("ownership", 0, 1, |r| r.chance(1, 8) as i64) == 1 {
            fixed_ownership(n, first, (steps % 97) + 1, obs)?;
        }
        let ctor = src.cfg("ctor", 0, 2, |r| if r.chance(3, 4) { 0 } else { r.range(1, 2) });
        obs.note(n as u64 * 1000 + storage as u64 * 100 + first as u64 + ctor as u64 * 7919);
        if ctor != 0 {
            let rb: Fixed<Vec<u64>> = if ctor == 1 { Fixed::from(data.clone()) } else { data.iter().copied().collect() };
            let seen: Vec<u64> = rb.iter().copied().collect();
            check_eq!(obs, (rb.len(), seen), (n, data.clone()), "fixed.constructor", "(len, contents in order) after constructor {}", ctor);
            let (f0, d0) = rb.into_raw_parts();
            return drive_fixed(d0, f0, steps, opmask, src, obs);
        }
        match storage {
            0 => drive_fixed(data, first, steps, opmask, src, obs),
            1 => drive_fixed(data.into_boxed_slice(), first, steps, opmask, src, obs),
            2 => {
                let mut d = data;
                drive_fixed(&mut d[..], first, steps, opmask, src, obs)
            }
            3 => drive_fixed(Guarded::new(&data), first, steps, opmask, src, obs),
            5 => {
                let mut v = Vec::with_capacity(n + 1 + n / 2);
                v.extend_from_slice(&data);
                drive_fixed(v, first, steps, opmask, src, obs)
            }
            _ => with_array!(n, data, drive_fixed, first, steps, opmask, src, obs),
        }
    }
}
