//! C07 — no heap allocation in steady state (std build part).
//!
//! The seam is the global allocator (`simcore::alloc::CountingAlloc`, installed in main.rs).  A run
//! draws one *program* from the table below (constructor + steady-state step), constructs it with
//! the allocator disarmed, then arms the allocator around every single steady-state operation of
//! a seeded history (values, selectors, resets, EOF in the middle) and requires zero heap events.
//! The bus — the documented exception — is checked for boundedness instead.

use crate::adframe::AdFrame;
use crate::tree;
use dasp_envelope as envelope;
use dasp_frame::Frame;
use dasp_interpolate::floor::Floor;
use dasp_interpolate::linear::Linear;
use dasp_interpolate::sinc::Sinc;
use dasp_interpolate::Interpolator;
use dasp_peak as peak;
use dasp_ring_buffer::{Bounded, Fixed};
use dasp_rms::Rms;
use dasp_sample::types::{I24, I48, U24, U48};
use dasp_sample::{Duplex, Sample};
use dasp_signal::bus::SignalBus;
use dasp_signal::envelope::SignalEnvelope;
use dasp_signal::rms::SignalRms;
use dasp_signal::{self as signal, Signal};
use simcore::alloc::{armed, armed_net_bytes, reset_armed_net, Seen};
use simcore::{check, f2i, i2f, Observer, Op, OpSpec, Scenario, Source, Violation};
use std::hint::black_box as bb;

pub struct AllocScenario;

/// Per-step arguments, all drawn before the allocator is armed.
pub struct Args {
    pub sel: usize,
    pub i: usize,
    pub x: f64,
}

pub struct Params {
    pub n: usize,
    pub cap: usize,
    pub len: usize,
}

type Prog = Box<dyn FnMut(&Args)>;

const POOL: usize = 64;

fn pool<F: AdFrame>() -> Vec<F> {
    (0..POOL as u64).map(|i| F::leaf(16 + (i % 7) as u32, i * 3)).collect()
}
fn spool<F: AdFrame>() -> Vec<F::SF> {
    (0..POOL as u64).map(|i| F::sleaf(16 * 3 + (i % 5) as u32, i)).collect()
}
fn fpool<F: AdFrame>() -> Vec<F::FF> {
    (0..POOL as u64).map(|i| F::fleaf((i % 5) as u32, i)).collect()
}

// --------------------------------------------------------------------------------------------
// program builders
// --------------------------------------------------------------------------------------------

fn p_sample_conv(_: &Params) -> Prog {
    Box::new(|a: &Args| {
        let x = a.x * 0.99;
        macro_rules! chain {
            ($($T:ty),*) => {$(
                let s: $T = x.to_sample::<$T>();
                bb(s.to_sample::<f32>());
                bb(s.to_sample::<f64>());
                bb(s.to_sample::<i16>());
                bb(s.to_sample::<u8>());
                bb(s.to_sample::<I24>());
                bb(s.to_sample::<U48>());
                bb(s.to_signed_sample());
                bb(s.to_float_sample());
                bb(Sample::add_amp(s, (x * 0.001).to_sample()));
                bb(Sample::mul_amp(s, 0.5f64.to_sample()));
            )*};
        }
        chain!(i8, i16, I24, i32, I48, i64, u8, u16, U24, u32, U48, u64, f32, f64);
    })
}

fn p_frame_ops<F: AdFrame>(_: &Params) -> Prog {
    let pool = pool::<F>();
    let sp = spool::<F>();
    let fp = fpool::<F>();
    Box::new(move |a: &Args| {
        let f = pool[a.i % POOL];
        let g = pool[(a.i * 7 + 1) % POOL];
        match a.sel % 12 {
            0 => {
                bb(f.scale_amp(F::fparam(4)));
            }
            1 => {
                bb(f.offset_amp(F::sparam(17)));
            }
            2 => {
                bb(f.add_amp(sp[a.i % POOL]));
            }
            3 => {
                bb(f.mul_amp(fp[a.i % POOL]));
            }
            4 => {
                bb(f.to_signed_frame());
                bb(f.to_float_frame());
            }
            5 => {
                bb(f.channels().count());
                bb(f.channels_ref().count());
            }
            6 => {
                bb(F::from_fn(|ch| *g.channel(ch).unwrap()));
            }
            7 => {
                let mut it = f.channels().chain(g.channels());
                bb(F::from_samples(&mut it));
                // short iterator: the partial fill is unwound
                let mut short = f.channels().take(F::CHANNELS - 1);
                bb(F::from_samples(&mut short));
            }
            8 => {
                bb(f.select(g));
                bb(f.reverse());
            }
            9 => {
                let mut h = f;
                for s in h.channels_mut() {
                    *s = Sample::EQUILIBRIUM;
                }
                bb(h);
            }
            10 => {
                bb(f.clip_ref(F::sparam(8)));
            }
            _ => {
                bb(F::EQUILIBRIUM);
                bb(f.channel(a.i % F::CHANNELS.max(1)));
            }
        }
    })
}

macro_rules! p_slice {
    ($name:ident, $S:ty, $N:expr) => {
        fn $name(p: &Params) -> Prog {
            type Fr = [$S; $N];
            let len = p.len.max(1);
            let mut a: Vec<Fr> = (0..len as u64).map(|i| <Fr as AdFrame>::leaf(17, i)).collect();
            let b: Vec<Fr> = (0..len as u64).map(|i| <Fr as AdFrame>::leaf(18, i + 5)).collect();
            let bs: Vec<<Fr as AdFrame>::SF> = (0..len as u64).map(|i| <Fr as AdFrame>::sleaf(16 * 3, i)).collect();
            let amp = <Fr as AdFrame>::fpc(3);
            let mut samples: Vec<$S> = vec![<$S as Sample>::EQUILIBRIUM; len * $N + 1];
            Box::new(move |args: &Args| match args.sel % 12 {
                10 => {
                    let r: Option<&[Fr]> = dasp_slice::from_sample_slice(&samples[..len * $N]);
                    bb(r.map(|x| x.len()));
                    let r: Option<&mut [Fr]> = dasp_slice::from_sample_slice_mut(&mut samples[..len * $N]);
                    bb(r.map(|x| x.len()));
                    let r: Option<&[Fr]> = dasp_slice::from_sample_slice(&samples[..]);
                    bb(r.is_none());
                }
                11 => {
                    let s: &[$S] = dasp_slice::from_frame_slice(&a[..]);
                    bb(s.len());
                    let s: &mut [$S] = dasp_slice::from_frame_slice_mut(&mut a[..]);
                    bb(s.len());
                }
                0 => {
                    let s: &[$S] = dasp_slice::to_sample_slice(&a[..]);
                    bb(s.len());
                }
                1 => {
                    let s: &mut [$S] = dasp_slice::to_sample_slice_mut(&mut a[..]);
                    s[0] = <$S as Sample>::EQUILIBRIUM;
                    bb(s.len());
                }
                2 => {
                    // length not divisible by N: must be refused without allocating
                    let r: Option<&[Fr]> = dasp_slice::to_frame_slice(&samples[..]);
                    bb(r.is_none());
                    let r: Option<&[Fr]> = dasp_slice::to_frame_slice(&samples[..len * $N]);
                    bb(r.map(|x| x.len()));
                }
                3 => {
                    let r: Option<&mut [Fr]> = dasp_slice::to_frame_slice_mut(&mut samples[..len * $N]);
                    bb(r.map(|x| x.len()));
                }
                4 => dasp_slice::equilibrium(&mut a[..]),
                5 => dasp_slice::map_in_place(&mut a[..], |f| f.reverse()),
                6 => dasp_slice::zip_map_in_place(&mut a[..], &b[..], |x, y| x.select(y)),
                7 => dasp_slice::write(&mut a[..], &b[..]),
                8 => {
                    dasp_slice::write(&mut a[..], &b[..]);
                    dasp_slice::add_in_place(&mut a[..], &bs[..]);
                }
                _ => {
                    dasp_slice::write(&mut a[..], &b[..]);
                    dasp_slice::add_in_place_with_amp_per_channel(&mut a[..], &bs[..], amp);
                }
            })
        }
    };
}
p_slice!(p_slice_f32x2, f32, 2);
p_slice!(p_slice_i16x2, i16, 2);

fn fixed_step<S: dasp_ring_buffer::SliceMut<Element = u64>>(rb: &mut Fixed<S>, a: &Args) {
    let n = rb.len();
    match a.sel % 12 {
        0 | 1 | 2 => {
            bb(rb.push(a.i as u64));
        }
        3 => {
            bb(*rb.get(a.i));
        }
        4 => {
            *rb.get_mut(a.i) = 5;
        }
        5 => {
            bb(rb[a.i % (4 * n)]);
            rb[a.i % n] = 9;
        }
        6 => rb.set_first(a.i),
        7 => {
            bb(rb.iter().count());
        }
        8 => {
            bb(rb.iter_loop().take(a.i % (3 * n)).count());
        }
        9 => {
            for s in rb.iter_mut() {
                *s += 1;
            }
        }
        10 => {
            let (x, y) = rb.slices();
            bb(x.len() + y.len());
            let (x, y) = rb.slices_mut();
            bb(x.len() + y.len());
        }
        _ => rb.extend([1u64, 2, 3].iter().copied()),
    }
}

fn bounded_step<S: dasp_ring_buffer::SliceMut<Element = u64>>(rb: &mut Bounded<S>, a: &Args) {
    match a.sel % 12 {
        0 | 1 | 2 => {
            bb(rb.push(a.i as u64));
        }
        3 | 4 => {
            bb(rb.pop());
        }
        5 => {
            bb(rb.get(a.i % (rb.max_len() + 1)).copied());
            if let Some(s) = rb.get_mut(a.i % (rb.max_len() + 1)) {
                *s = 3;
            }
        }
        6 => {
            bb(rb.iter().count());
            for s in rb.iter_mut() {
                *s += 1;
            }
        }
        7 => {
            let (x, y) = rb.slices();
            bb(x.len() + y.len());
            let (x, y) = rb.slices_mut();
            bb(x.len() + y.len());
        }
        8 => {
            bb(rb.drain().take(a.i % 4).count());
        }
        9 => rb.extend([1u64, 2, 3, 4, 5].iter().copied()),
        10 => {
            bb((rb.len(), rb.is_empty(), rb.is_full(), rb.max_len()));
        }
        _ => {
            if !rb.is_empty() {
                let l = rb.len();
                bb(rb[a.i % l]);
                rb[a.i % l] = 1;
            }
        }
    }
}

fn p_fixed_array(_: &Params) -> Prog {
    let mut rb = Fixed::from([0u64; 7]);
    Box::new(move |a: &Args| fixed_step(&mut rb, a))
}
fn p_fixed_vec(p: &Params) -> Prog {
    let mut rb = Fixed::from(vec![0u64; p.cap]);
    Box::new(move |a: &Args| fixed_step(&mut rb, a))
}
fn p_fixed_boxed(p: &Params) -> Prog {
    let mut rb = Fixed::from(vec![0u64; p.cap].into_boxed_slice());
    Box::new(move |a: &Args| fixed_step(&mut rb, a))
}
fn p_fixed_borrowed(p: &Params) -> Prog {
    // the backing storage is owned by the program and outlives the ring buffer view
    let store: &'static mut [u64] = Box::leak(vec![0u64; p.cap].into_boxed_slice());
    let ptr = store.as_mut_ptr();
    let cap = p.cap;
    let mut rb = Some(Fixed::from(store));
    struct Free(*mut u64, usize);
    impl Drop for Free {
        fn drop(&mut self) {
            unsafe { drop(Box::from_raw(std::ptr::slice_from_raw_parts_mut(self.0, self.1))) }
        }
    }
    let free = Free(ptr, cap);
    Box::new(move |a: &Args| {
        let _ = &free;
        fixed_step(rb.as_mut().unwrap(), a)
    })
}
fn p_bounded_array(_: &Params) -> Prog {
    let mut rb = Bounded::from([0u64; 5]);
    Box::new(move |a: &Args| bounded_step(&mut rb, a))
}
fn p_bounded_vec(p: &Params) -> Prog {
    let mut rb = Bounded::from(vec![0u64; p.cap]);
    Box::new(move |a: &Args| bounded_step(&mut rb, a))
}
fn p_bounded_boxed(p: &Params) -> Prog {
    let mut rb = Bounded::from_full(vec![0u64; p.cap].into_boxed_slice());
    Box::new(move |a: &Args| bounded_step(&mut rb, a))
}

fn p_peak<F: AdFrame>(_: &Params) -> Prog {
    use peak::Rectifier;
    let pool = pool::<F>();
    Box::new(move |a: &Args| {
        let f = pool[a.i % POOL];
        match a.sel % 4 {
            0 => {
                bb(peak::full_wave(f));
            }
            1 => {
                bb(peak::positive_half_wave(f));
            }
            2 => {
                bb(peak::negative_half_wave(f));
            }
            _ => {
                bb(peak::FullWave.rectify(f));
                bb(peak::PositiveHalfWave.rectify(f));
                bb(peak::NegativeHalfWave.rectify(f));
            }
        }
    })
}

fn rms_step<F: AdFrame, S: dasp_ring_buffer::SliceMut<Element = F::Float>>(r: &mut Rms<F, S>, pool: &[F], a: &Args) {
    match a.sel % 8 {
        0 | 1 | 2 | 3 => {
            bb(r.next(pool[a.i % POOL]));
        }
        4 => {
            bb(r.next_squared(pool[a.i % POOL]));
        }
        5 => {
            bb(r.current());
        }
        6 => r.reset(),
        _ => {
            bb(r.window_frames());
        }
    }
}
fn p_rms_vec<F: AdFrame>(p: &Params) -> Prog {
    let pool = pool::<F>();
    let mut r: Rms<F, Vec<F::Float>> = Rms::new(Fixed::from(vec![<F::Float as Frame>::EQUILIBRIUM; p.cap]));
    Box::new(move |a: &Args| rms_step(&mut r, &pool, a))
}
fn p_rms_array<F: AdFrame>(_: &Params) -> Prog {
    let pool = pool::<F>();
    let mut r: Rms<F, [F::Float; 16]> = Rms::new(Fixed::from([<F::Float as Frame>::EQUILIBRIUM; 16]));
    Box::new(move |a: &Args| rms_step(&mut r, &pool, a))
}

fn p_envelope<F: AdFrame>(p: &Params) -> Prog {
    let pool = pool::<F>();
    let mut d0 = envelope::Detector::<F, _>::peak(3.0, 9.0);
    let mut d1 = envelope::Detector::<F, _>::peak_positive_half_wave(0.0, 100.0);
    let mut d2 = envelope::Detector::<F, _>::peak_negative_half_wave(2.0, 0.0);
    let mut d3 = envelope::Detector::<F, _>::peak_from_rectifier(peak::FullWave, 1.0, 1.0);
    let mut d4 = envelope::Detector::<F, Rms<F, Vec<F::Float>>>::rms(Fixed::from(vec![<F::Float as Frame>::EQUILIBRIUM; p.cap]), 4.0, 40.0);
    Box::new(move |a: &Args| {
        let f = pool[a.i % POOL];
        match a.sel % 8 {
            0 => {
                bb(d0.next(f));
            }
            1 => {
                bb(d1.next(f));
            }
            2 => {
                bb(d2.next(f));
            }
            3 => {
                bb(d3.next(f));
            }
            4 | 5 => {
                bb(d4.next(f));
            }
            6 => {
                d0.set_attack_frames((a.x.abs() * 100.0) as f32);
                d4.set_attack_frames(0.0);
            }
            _ => {
                d0.set_release_frames((a.x.abs() * 1000.0) as f32);
                d4.set_release_frames((a.x.abs() * 10.0) as f32);
            }
        }
    })
}

fn interp_step<I: Interpolator>(it: &mut I, pool: &[I::Frame], a: &Args) {
    match a.sel % 6 {
        0 | 1 | 2 => {
            bb(it.interpolate(a.x.abs().fract()));
        }
        3 | 4 => it.next_source_frame(pool[a.i % POOL]),
        _ => it.reset(),
    }
}
fn p_floor<F: AdFrame>(_: &Params) -> Prog
where
    F::Sample: Duplex<f64>,
{
    let pool = pool::<F>();
    let mut it = Floor::new(pool[0]);
    Box::new(move |a: &Args| interp_step(&mut it, &pool, a))
}
fn p_linear<F: AdFrame>(_: &Params) -> Prog
where
    F::Sample: Duplex<f64>,
{
    let pool = pool::<F>();
    let mut it = Linear::new(pool[0], pool[1]);
    Box::new(move |a: &Args| interp_step(&mut it, &pool, a))
}
fn p_sinc_array<F: AdFrame>(_: &Params) -> Prog
where
    F::Sample: Duplex<f64>,
{
    let pool = pool::<F>();
    let mut it = Sinc::new(Fixed::from([F::EQUILIBRIUM; 8]));
    Box::new(move |a: &Args| interp_step(&mut it, &pool, a))
}
fn p_sinc_vec<F: AdFrame>(p: &Params) -> Prog
where
    F::Sample: Duplex<f64>,
{
    let pool = pool::<F>();
    let mut it = Sinc::new(Fixed::from(vec![F::EQUILIBRIUM; 2 * p.n.max(1)]));
    Box::new(move |a: &Args| interp_step(&mut it, &pool, a))
}

fn p_window<F: AdFrame>(p: &Params) -> Prog {
    use dasp_window::Window as _;
    let frames: &'static [F] = Box::leak(pool::<F>().into_boxed_slice());
    let bin = 2 + p.n % 14;
    let hop = 1 + p.cap % 9;
    let mut hann = signal::window::hann::<F>(bin);
    let mut rect = signal::window::rectangle::<F>(bin);
    let mut w = signal::window::Windower::hann(frames, bin, hop);
    let mut wr = signal::window::Windower::rectangle(frames, bin, hop);
    struct Free<F: 'static>(&'static [F]);
    impl<F> Drop for Free<F> {
        fn drop(&mut self) {
            unsafe { drop(Box::from_raw(self.0 as *const [F] as *mut [F])) }
        }
    }
    let free = Free(frames);
    Box::new(move |a: &Args| {
        let _ = &free;
        match a.sel % 6 {
            0 => {
                bb(hann.next());
            }
            1 => {
                bb(rect.next());
            }
            2 | 3 => {
                // next chunk (restart when the windower is used up), then walk through it
                bb(w.size_hint());
                match w.next() {
                    Some(mut chunk) => {
                        // a Windowed chunk is an endless iterator: its first `bin` frames are the chunk
                        for _ in 0..bin {
                            bb(chunk.next());
                        }
                    }
                    None => w = signal::window::Windower::hann(frames, bin, hop),
                }
            }
            4 => match wr.next() {
                Some(mut chunk) => {
                    bb(chunk.next());
                }
                None => wr = signal::window::Windower::rectangle(frames, bin, hop),
            },
            _ => {
                bb(dasp_window::Hann::window(a.x.abs().fract()));
                bb(dasp_window::Rectangle::window(a.x.abs().fract()));
            }
        }
    })
}

fn p_sources(p: &Params) -> Prog {
    let len = p.len;
    let mut eq = signal::equilibrium::<[f32; 2]>();
    let mut g = signal::gen(|| [0.5f32, -0.5]);
    let mut k = 0u32;
    let mut gm = signal::gen_mut(move || {
        k = k.wrapping_add(1);
        (k % 7) as f64 / 8.0
    });
    let data: Vec<[i16; 2]> = (0..len as i16).map(|i| [i, -i]).collect();
    let mut fi = signal::from_iter(data.into_iter());
    let samples: Vec<f32> = (0..len * 3 + 1).map(|i| i as f32 / 1000.0).collect();
    let mut fs = signal::from_interleaved_samples_iter::<_, [f32; 3]>(samples.into_iter());
    let mut ph = signal::rate(44_100.0).const_hz(440.0).phase();
    let mut si = signal::rate(44_100.0).const_hz(440.0).sine();
    let mut sa = signal::rate(10.0).const_hz(3.0).saw();
    let mut sq = signal::rate(48_000.0).const_hz(100_000.0).square();
    let mut no = signal::noise(len as u64);
    let mut ns = signal::rate(44_100.0).const_hz(440.0).noise_simplex();
    let ctl: Vec<f64> = (0..len).map(|i| 100.0 + i as f64).collect();
    let mut hz = signal::rate(8_000.0).hz(signal::from_iter(ctl.clone().into_iter())).sine();
    let mut hzp = signal::rate(8_000.0).hz(signal::from_iter(ctl.into_iter())).noise_simplex();
    Box::new(move |a: &Args| match a.sel % 14 {
        0 => {
            bb(eq.next());
        }
        1 => {
            bb(g.next());
        }
        2 => {
            bb(gm.next());
        }
        3 => {
            bb((fi.is_exhausted(), fi.next()));
        }
        4 => {
            bb((fs.is_exhausted(), fs.next()));
        }
        5 => {
            bb(ph.next());
        }
        6 => {
            bb(si.next());
        }
        7 => {
            bb(sa.next());
        }
        8 => {
            bb(sq.next());
        }
        9 => {
            bb(no.next());
        }
        10 => {
            bb(ns.next());
        }
        11 => {
            bb((hz.is_exhausted(), hz.next()));
        }
        12 => {
            bb(hzp.next());
        }
        _ => {
            bb(ph.next_phase_wrapped_to(3.0));
        }
    })
}

/// A finite source of pool frames (EOF lands in the middle of most runs).
fn finite<F: AdFrame>(len: usize, off: u64) -> signal::FromIterator<std::vec::IntoIter<F>> {
    let v: Vec<F> = (0..len as u64).map(|i| F::leaf(17, i + off)).collect();
    signal::from_iter(v.into_iter())
}

fn p_adaptors_unary<F: AdFrame>(p: &Params) -> Prog {
    let mut s0 = finite::<F>(p.len, 0).map(|f: F| f.reverse());
    let mut s1 = finite::<F>(p.len, 1).scale_amp(F::fparam(4));
    let mut s2 = finite::<F>(p.len, 2).offset_amp(F::sparam(9));
    let mut s3 = finite::<F>(p.len, 3).scale_amp_per_channel(F::fpc(5));
    let mut s4 = finite::<F>(p.len, 4).offset_amp_per_channel(F::spc(5));
    let mut s5 = finite::<F>(p.len, 5).clip_amp(F::sparam(30));
    let mut seen = 0u64;
    let mut s6 = finite::<F>(p.len, 6).inspect(move |_f: &F| seen += 1);
    let mut s7 = finite::<F>(p.len, 7).delay(p.n);
    let mut s8 = finite::<F>(p.len, 8);
    Box::new(move |a: &Args| match a.sel % 10 {
        0 => {
            bb((s0.is_exhausted(), s0.next()));
        }
        1 => {
            bb(s1.next());
        }
        2 => {
            bb(s2.next());
        }
        3 => {
            bb(s3.next());
        }
        4 => {
            bb(s4.next());
        }
        5 => {
            bb(s5.next());
        }
        6 => {
            bb(s6.next());
        }
        7 => {
            bb((s7.is_exhausted(), s7.next()));
        }
        8 => {
            // borrowed adaptor stack, dropped again inside the armed window
            let mut t = s8.by_ref().scale_amp(F::fparam(2)).delay(1);
            bb(t.next());
            bb(t.next());
        }
        _ => {
            bb(Signal::take(&mut s8, 2).count());
        }
    })
}

fn p_adaptors_binary<F: AdFrame>(p: &Params) -> Prog {
    let sg: Vec<F::SF> = (0..p.len as u64 + 3).map(|i| F::sleaf(16 * 3 + 1, i)).collect();
    let fl: Vec<F::FF> = (0..p.len as u64 / 2).map(|i| F::fleaf(2, i)).collect();
    let mut s0 = finite::<F>(p.len, 0).add_amp(signal::from_iter(sg.into_iter()));
    let mut s1 = finite::<F>(p.len, 1).mul_amp(signal::from_iter(fl.into_iter()));
    let mut s2 = finite::<F>(p.len, 2).zip_map(finite::<F>(p.len + 2, 9), |x: F, y: F| x.select(y));
    let mut it = finite::<F>(p.len, 3).until_exhausted();
    let mut il = finite::<F>(p.len, 4).into_interleaved_samples();
    let mut tk = finite::<F>(p.len, 5).take(p.len / 2 + 1);
    Box::new(move |a: &Args| match a.sel % 6 {
        0 => {
            bb((s0.is_exhausted(), s0.next()));
        }
        1 => {
            bb((s1.is_exhausted(), s1.next()));
        }
        2 => {
            bb((s2.is_exhausted(), s2.next()));
        }
        3 => {
            bb(it.next());
        }
        4 => {
            bb(il.next_sample());
        }
        _ => {
            bb((tk.len(), tk.next()));
        }
    })
}

fn p_converters<F: AdFrame>(p: &Params) -> Prog
where
    F::Sample: Duplex<f64>,
{
    let pl = pool::<F>();
    let ctl: Vec<f64> = (0..p.len * 4).map(|i| 0.25 + (i % 9) as f64 * 0.4).collect();
    let mut c0 = finite::<F>(p.len, 0).from_hz_to_hz(Linear::new(pl[0], pl[1]), 44_100.0, 48_000.0);
    let mut c1 = finite::<F>(p.len, 1).scale_hz(Floor::new(pl[2]), 1.7);
    let mut c2 = finite::<F>(p.len, 2).from_hz_to_hz(Sinc::new(Fixed::from([F::EQUILIBRIUM; 16])), 48_000.0, 44_100.0);
    let mut c3 = finite::<F>(p.len, 3).from_hz_to_hz(Sinc::new(Fixed::from(vec![F::EQUILIBRIUM; 2 * p.n.max(1)])), 1.0, 2.5);
    let mut m0 = finite::<F>(p.len, 4).mul_hz(Linear::new(pl[3], pl[4]), signal::from_iter(ctl.clone().into_iter()));
    let mut m1 = finite::<F>(p.len, 5).mul_hz(Floor::new(pl[5]), signal::from_iter(ctl.clone().into_iter()));
    let mut m2 = finite::<F>(p.len, 6).mul_hz(Sinc::new(Fixed::from([F::EQUILIBRIUM; 4])), signal::from_iter(ctl.into_iter()));
    Box::new(move |a: &Args| match a.sel % 9 {
        0 => {
            bb((c0.is_exhausted(), c0.next()));
        }
        1 => {
            bb(c1.next());
        }
        2 => {
            bb(c2.next());
        }
        3 => {
            bb(c3.next());
        }
        4 => {
            bb((m0.is_exhausted(), m0.next()));
        }
        5 => {
            bb(m1.next());
        }
        6 => {
            bb(m2.next());
        }
        7 => {
            c0.set_hz_to_hz(48_000.0, 8_000.0 + a.x.abs() * 40_000.0);
            c1.set_playback_hz_scale(0.1 + a.x.abs() * 4.0);
        }
        _ => {
            c2.set_sample_hz_scale(0.5 + a.x.abs());
            bb(c3.source().is_exhausted());
        }
    })
}

fn p_fork_buffered<F: AdFrame>(p: &Params) -> Prog {
    let cap = p.cap;
    let mut fork_vec = finite::<F>(p.len, 0).fork(Bounded::from(vec![F::EQUILIBRIUM; cap]));
    let mut fork_arr = finite::<F>(p.len, 1).fork(Bounded::from([F::EQUILIBRIUM; 8]));
    let (mut ra, mut rb) = finite::<F>(p.len, 2).fork(Bounded::from(vec![F::EQUILIBRIUM; cap])).by_rc();
    let mut buf_vec = finite::<F>(p.len, 3).buffered(Bounded::from(vec![F::EQUILIBRIUM; cap]));
    let mut buf_box = finite::<F>(p.len, 4).buffered(Bounded::from_full(vec![F::EQUILIBRIUM; cap].into_boxed_slice()));
    let mut lead = 0i64;
    Box::new(move |a: &Args| match a.sel % 8 {
        0 => {
            // branches by reference are created inside the armed window: that must be free too
            let (mut x, mut y) = fork_vec.by_ref();
            bb(x.next());
            bb(y.next());
            bb((x.pending_frames(), y.pending_frames()));
        }
        1 => {
            let (mut x, mut y) = fork_arr.by_ref();
            for _ in 0..(a.i % 8) {
                bb(x.next());
            }
            for _ in 0..(a.i % 8) {
                bb(y.next());
            }
        }
        2 => {
            if lead < cap as i64 {
                bb(ra.next());
                lead += 1;
            }
        }
        3 => {
            if lead > -(cap as i64) {
                bb(rb.next());
                lead -= 1;
            }
        }
        4 => {
            bb((ra.pending_frames(), rb.pending_frames()));
        }
        5 => {
            bb((buf_vec.is_exhausted(), buf_vec.next()));
        }
        6 => {
            bb(buf_vec.next_frames().take(a.i % (cap + 1)).count());
        }
        _ => {
            bb(buf_box.next());
            bb(buf_box.next_frames().count());
        }
    })
}

fn p_signal_rms_env<F: AdFrame>(p: &Params) -> Prog {
    let mut r = finite::<F>(p.len, 0).rms(Fixed::from(vec![<F::Float as Frame>::EQUILIBRIUM; p.cap]));
    let mut r2 = finite::<F>(p.len, 1).rms(Fixed::from([<F::Float as Frame>::EQUILIBRIUM; 4]));
    let mut e = finite::<F>(p.len, 2).detect_envelope(envelope::Detector::peak(2.0, 20.0));
    let mut e2 = finite::<F>(p.len, 3).detect_envelope(envelope::Detector::rms(
        Fixed::from(vec![<F::Float as Frame>::EQUILIBRIUM; p.cap]),
        1.0,
        5.0,
    ));
    Box::new(move |a: &Args| match a.sel % 6 {
        0 => {
            bb((r.is_exhausted(), r.next()));
        }
        1 => {
            bb(r.next_squared());
        }
        2 => {
            bb(r2.next());
        }
        3 => {
            bb(e.next());
        }
        4 => {
            bb(e2.next());
        }
        _ => {
            e.set_attack_frames((a.x.abs() * 50.0) as f32);
            e2.set_release_frames(0.0);
        }
    })
}

/// Seeded composition: an adaptor tree from the C04 builder, pulled with the allocator armed.
fn p_composition<F: AdFrame>(p: &Params) -> Prog {
    let mut comp = tree::Composition::<F>::build((p.n * 131 + p.cap * 17 + p.len) as u64);
    Box::new(move |_a: &Args| {
        bb(comp.pull());
    })
}

// --------------------------------------------------------------------------------------------
// the table
// --------------------------------------------------------------------------------------------

macro_rules! rows {
    ($($name:expr => $f:expr),* $(,)?) => {
        static OPS: &[OpSpec] = &[ $(OpSpec { name: $name, shrink: 0 },)* OpSpec { name: "bus(lock-step rounds; boundedness)", shrink: 0 } ];
        static BUILDERS: &[fn(&Params) -> Prog] = &[ $($f,)* ];
    };
}

rows! {
    "sample conversions + add_amp/mul_amp, 14 formats" => p_sample_conv,
    "frame ops f32 (N=1)" => p_frame_ops::<f32>,
    "frame ops [f32;2]" => p_frame_ops::<[f32; 2]>,
    "frame ops [u8;3]" => p_frame_ops::<[u8; 3]>,
    "frame ops [f64;8]" => p_frame_ops::<[f64; 8]>,
    "frame ops [u16;32]" => p_frame_ops::<[u16; 32]>,
    "borrowed slice conversions + in-place ops [f32;2]" => p_slice_f32x2,
    "borrowed slice conversions + in-place ops [i16;2]" => p_slice_i16x2,
    "Fixed over [T;7]" => p_fixed_array,
    "Fixed over Vec (never resized)" => p_fixed_vec,
    "Fixed over Box<[T]> (never resized)" => p_fixed_boxed,
    "Fixed over &mut [T]" => p_fixed_borrowed,
    "Bounded over [T;5]" => p_bounded_array,
    "Bounded over Vec (never resized)" => p_bounded_vec,
    "Bounded over Box<[T]> from_full" => p_bounded_boxed,
    "rectifiers [f32;2]" => p_peak::<[f32; 2]>,
    "rectifiers [i16;2]" => p_peak::<[i16; 2]>,
    "Rms over Vec window [f32;2]" => p_rms_vec::<[f32; 2]>,
    "Rms over Vec window i16" => p_rms_vec::<i16>,
    "Rms over array window [f64;8]" => p_rms_array::<[f64; 8]>,
    "envelope detectors (peak x3, from_rectifier, rms) f32" => p_envelope::<f32>,
    "envelope detectors (peak x3, from_rectifier, rms) [i16;2]" => p_envelope::<[i16; 2]>,
    "Floor interpolator [f32;2]" => p_floor::<[f32; 2]>,
    "Linear interpolator [i16;2]" => p_linear::<[i16; 2]>,
    "Sinc interpolator over array f64" => p_sinc_array::<f64>,
    "Sinc interpolator over Vec [f32;2]" => p_sinc_vec::<[f32; 2]>,
    "window iterators, Windower, Windowed f32" => p_window::<f32>,
    "window iterators, Windower, Windowed [f64;8]" => p_window::<[f64; 8]>,
    "signal sources (equilibrium gen gen_mut from_iter from_interleaved phase sine saw square noise simplex hz)" => p_sources,
    "unary adaptors + by_ref + take [f32;2]" => p_adaptors_unary::<[f32; 2]>,
    "unary adaptors + by_ref + take [u8;3]" => p_adaptors_unary::<[u8; 3]>,
    "unary adaptors + by_ref + take [u16;32]" => p_adaptors_unary::<[u16; 32]>,
    "binary adaptors + until_exhausted + interleaved + take [f32;2]" => p_adaptors_binary::<[f32; 2]>,
    "binary adaptors + until_exhausted + interleaved + take [i16;2]" => p_adaptors_binary::<[i16; 2]>,
    "rate conversion floor/linear/sinc + mul_hz f64" => p_converters::<f64>,
    "rate conversion floor/linear/sinc + mul_hz [i16;2]" => p_converters::<[i16; 2]>,
    "fork by_ref / by_rc branches, buffered [f32;2]" => p_fork_buffered::<[f32; 2]>,
    "fork by_ref / by_rc branches, buffered i16" => p_fork_buffered::<i16>,
    "signal rms + detect_envelope adaptors f32" => p_signal_rms_env::<f32>,
    "signal rms + detect_envelope adaptors [i16;2]" => p_signal_rms_env::<[i16; 2]>,
    "seeded adaptor composition [f32;2]" => p_composition::<[f32; 2]>,
    "seeded adaptor composition [i16;2]" => p_composition::<[i16; 2]>,
    "seeded adaptor composition [f64;8]" => p_composition::<[f64; 8]>,
}

const F_ARMED: usize = 0;
const F_EOF_ARMED: usize = 1;
const F_HEAP_STORAGE: usize = 2;
const F_BUS_ROUNDS: usize = 3;

const P_SEAM_SELFCHECK: usize = 0;
const P_LONG_HISTORY: usize = 1;

fn bus_run(src: &mut Source, obs: &mut Observer, steps: usize) -> Result<(), Violation> {
    // documented exception: allocates, but the backlog must stop growing once outputs are pulled in step
    let k = OPS.len() as u8 - 1;
    let n_out = src.cfg("bus_outputs", 1, 6, |r| r.range(1, 6)) as usize;
    let mut kk = 0u32;
    let bus = signal::gen_mut(move || {
        kk = kk.wrapping_add(1);
        [kk as f32, 1.0]
    })
    .bus();
    let mut outs: Vec<_> = (0..n_out).map(|_| bus.send()).collect();
    // an earlier history the steady state must not remember: a monitor output that lagged and was
    // dropped caught-up (1), dropped while lagging (2), or came late and left at once (3)
    let history = src.cfg("bus_history", 0, 3, |r| r.range(0, 3));
    let lag = src.cfg("bus_history_lag", 1, 40, |r| r.range(1, 40)) as usize;
    if history != 0 {
        if history == 3 {
            for o in outs.iter_mut() {
                bb(o.next());
            }
        }
        let mut monitor = bus.send();
        if history != 3 {
            for _ in 0..lag {
                for o in outs.iter_mut() {
                    bb(o.next());
                }
            }
        }
        if history == 1 {
            while monitor.pending_frames() > 0 {
                bb(monitor.next());
            }
        }
        drop(monitor);
    }
    // warm-up round
    for o in outs.iter_mut() {
        bb(o.next());
    }
    reset_armed_net();
    let base_backlog = bus.verif_backlog_len();
    let mut rounds = 0;
    loop {
        let op = src.next_op(|r| if rounds >= steps { None } else { Some(Op::ka(k, if steps > 1000 { 8 } else { r.range(1, 4) })) });
        let Some(op) = op else { break };
        if op.k != k {
            src.skip_last();
            continue;
        }
        rounds += 1;
        obs.tick(op.k);
        obs.fault(F_BUS_ROUNDS);
        obs.inflight();
        // one lock-step round of `burst` frames per output
        let burst = op.a.clamp(1, 8);
        let ((), _seen) = armed(|| {
            for o in outs.iter_mut() {
                for _ in 0..burst {
                    bb(o.next());
                }
            }
        });
        check!(
            obs,
            bus.verif_backlog_len() <= base_backlog,
            "alloc.bus-backlog-grows",
            "after lock-step round {} the backlog holds {} frames (was {} after warm-up)",
            rounds,
            bus.verif_backlog_len(),
            base_backlog
        );
    }
    // the VecDeque may grow until it can hold one burst (<= 8 frames of 8 bytes, doubling
    // strategy); it must not keep growing with the number of rounds
    let grown = armed_net_bytes();
    check!(
        obs,
        grown <= 1024,
        "alloc.bus-memory-grows",
        "heap held by bus operations grew by {} bytes net over {} lock-step rounds",
        grown,
        rounds
    );
    Ok(())
}

impl Scenario for AllocScenario {
    fn name(&self) -> &'static str {
        "alloc"
    }
    fn property(&self) -> &'static str {
        "C07"
    }
    fn ops(&self) -> &'static [OpSpec] {
        OPS
    }
    fn faults(&self) -> &'static [&'static str] {
        &[
            "operation executed with the allocator armed (allocation denied-by-recording)",
            "finite source crossed its end inside the armed history",
            "heap-backed user storage (Vec / Box<[T]>) under armed operations",
            "bus lock-step round (boundedness accounting)",
        ]
    }
    fn probes(&self) -> &'static [&'static str] {
        &["allocator seam self-check passed (armed Vec::with_capacity is seen)", "armed history of >= 300 operations"]
    }
    fn rule(&self) -> &'static str {
        "case = (program row of the table = constructor + steady-state step over one API family and format, sizes n/cap/len, seeded \
         history of (selector, pool index, value) operations); each operation of the history runs with the thread's allocator armed; \
         non-trivial = armed operations executed; distinct = hash of (row, sizes, operation arguments). Per-row execution counts are \
         listed under operations_executed (a row with 0 executions is a coverage hole)."
    }
    fn real(&self) -> &'static [&'static str] {
        &[
            "dasp_sample, dasp_frame, dasp_slice (borrowed), dasp_ring_buffer, dasp_peak, dasp_rms, dasp_envelope, dasp_interpolate, dasp_window, dasp_signal (sources, adaptors, fork, buffered, converters, windower, bus)",
        ]
    }
    fn stubs(&self) -> &'static [&'static str] {
        &["CountingAlloc global allocator wrapper over System (thread-local arming)"]
    }
    fn assumptions(&self) -> &'static [&'static str] {
        &[
            "construction runs disarmed; boxed-slice conversions and Rc branch creation are exempt by the property and not armed",
            "an armed allocation is recorded, not failed (a null return would abort the process)",
        ]
    }
    fn runs(&self, tier: &str) -> u64 {
        if tier == "quick" {
            200_000
        } else {
            20_000_000
        }
    }
    fn run(&self, src: &mut Source, obs: &mut Observer) -> Result<(), Violation> {
        if simcore::alloc::installed() {
            obs.probe(P_SEAM_SELFCHECK);
        } else {
            panic!("harness: counting allocator is not installed");
        }
        let row = src.cfg("row", 0, OPS.len() as i64 - 1, |r| r.range(0, OPS.len() as i64 - 1)) as usize;
        let p = Params {
            n: src.cfg("n", 1, 130, |r| if r.chance(1, 10) { *r.pick(&[31i64, 32, 33, 64, 65, 100, 128]) } else { r.range(1, 16) }) as usize,
            cap: src.cfg("cap", 1, 130, |r| if r.chance(1, 10) { *r.pick(&[31i64, 32, 33, 64, 65, 100, 128]) } else { r.range(1, 16) }) as usize,
            len: src.cfg("len", 0, 2000, |r| if r.chance(1, 20) { r.range(200, 2000) } else { r.range(0, 200) }) as usize,
        };
        let long = src.cfg("long", 0, 1, |r| r.chance(1, 10) as i64) == 1;
        let steps = src.cfg("steps", 1, 3000, |r| if long { r.range(300, 3000) } else { r.range(20, 120) }) as usize;
        if steps >= 300 {
            obs.probe(P_LONG_HISTORY);
        }
        obs.note((row as u64) << 32 | (p.n as u64) << 16 | (p.cap as u64) << 8 | p.len as u64);
        if row == OPS.len() - 1 {
            // rarely: enough lock-step rounds to push more than 2^16 frames through the bus
            let very_long = src.cfg("bus_very_long", 0, 1, |r| r.chance(1, 12) as i64) == 1;
            return bus_run(src, obs, if very_long { 12_000 } else { steps.min(200) });
        }
        let mut prog = BUILDERS[row](&p);
        if OPS[row].name.contains("Vec") || OPS[row].name.contains("Box") {
            obs.fault(F_HEAP_STORAGE);
        }
        let mut done = 0usize;
        loop {
            let op = src.next_op(|r| {
                if done >= steps {
                    None
                } else {
                    Some(Op::new(row as u8, r.range(0, 1 << 20), r.range(0, 1 << 20), f2i(r.f64_in(-1.0, 1.0))))
                }
            });
            let Some(op) = op else { break };
            if op.k as usize != row {
                src.skip_last();
                obs.skipped();
                continue;
            }
            done += 1;
            let x = i2f(op.c);
            let args = Args {
                sel: op.a.max(0) as usize,
                i: op.b.max(0) as usize,
                x: if x.is_finite() { x.clamp(-1.0, 1.0) } else { 0.0 },
            };
            obs.tick(op.k);
            obs.note(op.a as u64 ^ (op.b as u64) << 20);
            obs.fault(F_ARMED);
            obs.inflight();
            if done == p.len + 1 {
                obs.fault(F_EOF_ARMED);
            }
            let ((), seen): ((), Seen) = armed(|| prog(&args));
            obs.state(row as u64, op.k);
            check!(
                obs,
                seen.events == 0,
                format!("alloc.row{}", row),
                "steady-state operation {} (selector {}) of program '{}' touched the heap: {}",
                done,
                args.sel,
                OPS[row].name,
                seen.describe()
            );
        }
        drop(prog);
        Ok(())
    }
}
