//! Probe sources: the stub side of the "transport".  Frames are unique and attributable, pulls are
//! counted through a shared cell the harness keeps, and the end of the stream is scripted.

use dasp_frame::Frame;
use dasp_signal::Signal;
use std::cell::Cell;
use std::fmt::Debug;
use std::rc::Rc;

/// Frame types the scenarios run over: a unique, attributable frame per (source id, index).
pub trait TagFrame: Frame + PartialEq + Debug + Copy + 'static {
    const NAME: &'static str;
    fn tag(src: u32, idx: u64) -> Self;
    fn bits(&self) -> u64;
}

impl TagFrame for f64 {
    const NAME: &'static str = "f64";
    fn tag(src: u32, idx: u64) -> Self {
        // never the equilibrium value, exact
        (src as f64 + 1.0) * 1048576.0 + idx as f64 + 0.5
    }
    fn bits(&self) -> u64 {
        self.to_bits()
    }
}
impl TagFrame for f32 {
    const NAME: &'static str = "f32";
    fn tag(src: u32, idx: u64) -> Self {
        (src as f32 + 1.0) * 65536.0 + (idx % 65536) as f32 + 0.5
    }
    fn bits(&self) -> u64 {
        self.to_bits() as u64
    }
}
impl TagFrame for [f32; 2] {
    const NAME: &'static str = "[f32;2]";
    fn tag(src: u32, idx: u64) -> Self {
        [(idx % 1_000_000) as f32 + 0.5, -(src as f32) - 1.0]
    }
    fn bits(&self) -> u64 {
        (self[0].to_bits() as u64) << 32 | self[1].to_bits() as u64
    }
}
impl TagFrame for i16 {
    const NAME: &'static str = "i16";
    fn tag(src: u32, idx: u64) -> Self {
        // non-zero for idx < 30000
        ((idx % 30000) as i16 + 1) * if src % 2 == 0 { 1 } else { -1 }
    }
    fn bits(&self) -> u64 {
        *self as u16 as u64
    }
}
impl TagFrame for [u8; 3] {
    const NAME: &'static str = "[u8;3]";
    fn tag(src: u32, idx: u64) -> Self {
        // equilibrium is [128,128,128]; third channel never 128
        [(idx % 256) as u8, ((idx / 256) % 256) as u8, (src % 100) as u8]
    }
    fn bits(&self) -> u64 {
        (self[0] as u64) << 16 | (self[1] as u64) << 8 | self[2] as u64
    }
}
impl TagFrame for [i32; 2] {
    const NAME: &'static str = "[i32;2]";
    fn tag(src: u32, idx: u64) -> Self {
        [idx as i32 + 1, -(src as i32) - 1]
    }
    fn bits(&self) -> u64 {
        (self[0] as u32 as u64) << 32 | self[1] as u32 as u64
    }
}

#[derive(Clone, Default)]
pub struct Pulls(pub Rc<Cell<u64>>);
impl Pulls {
    pub fn new() -> Self {
        Pulls(Rc::new(Cell::new(0)))
    }
    pub fn get(&self) -> u64 {
        self.0.get()
    }
    fn bump(&self) {
        self.0.set(self.0.get() + 1);
    }
}

/// A `Signal` implemented directly by the harness: frame `i` is `F::tag(id, i)`; exhausted after
/// `end` frames (`None` = endless); equilibrium afterwards.
#[derive(Clone)]
pub struct ProbeSignal<F> {
    pub id: u32,
    pub idx: u64,
    pub end: Option<u64>,
    pub pulls: Pulls,
    pub make: fn(u32, u64) -> F,
    /// "exhausted" is not "silent": when set, the probe keeps yielding `make(id, i)` after it has started
    /// to report exhaustion — what `finite.add_amp(endless)` or `finite.offset_amp(x)` do
    pub loud_after_end: bool,
    /// Injected crash: armed with `k > 0`, the k-th pull from now unwinds with an `InjectedCrash` payload
    /// *before* anything is counted or consumed (a source whose `next()` fails and whose host catches the
    /// failure and carries on); it disarms itself when it fires.  Shared with the harness (and with clones).
    pub crash: Rc<Cell<u32>>,
}

/// Payload of the unwinding injected by an armed `ProbeSignal`.
pub struct InjectedCrash;

impl<F: Frame> ProbeSignal<F> {
    /// A probe whose frame `i` is `make(id, i)`.
    pub fn with(id: u32, end: Option<u64>, make: fn(u32, u64) -> F) -> (Self, Pulls) {
        let pulls = Pulls::new();
        (
            ProbeSignal {
                id,
                idx: 0,
                end,
                pulls: pulls.clone(),
                make,
                loud_after_end: false,
                crash: Rc::new(Cell::new(0)),
            },
            pulls,
        )
    }
}

impl<F: TagFrame> ProbeSignal<F> {
    pub fn new(id: u32, end: Option<u64>) -> (Self, Pulls) {
        Self::with(id, end, F::tag)
    }
    /// What the model expects as frame number `i` of this source.
    pub fn expect(id: u32, end: Option<u64>, i: u64) -> F {
        match end {
            Some(e) if i >= e => F::EQUILIBRIUM,
            _ => F::tag(id, i),
        }
    }
}

impl<F: Frame> Signal for ProbeSignal<F> {
    type Frame = F;
    fn next(&mut self) -> F {
        let armed = self.crash.get();
        if armed > 0 {
            self.crash.set(armed - 1);
            if armed == 1 {
                std::panic::panic_any(InjectedCrash);
            }
        }
        self.pulls.bump();
        let f = match self.end {
            Some(e) if self.idx >= e && !self.loud_after_end => F::EQUILIBRIUM,
            _ => (self.make)(self.id, self.idx),
        };
        self.idx += 1;
        f
    }
    fn is_exhausted(&self) -> bool {
        matches!(self.end, Some(e) if self.idx >= e)
    }
}

/// Iterator-level probe used under the real `signal::from_iter`: yields `len` items, then `None`;
/// if `resume_after` is set it misbehaves like a non-fused iterator and yields further items
/// after its first `None`.
#[derive(Clone)]
pub struct ProbeIter<T> {
    pub id: u32,
    pub i: u64,
    pub len: u64,
    pub polls: Pulls,
    pub nones: Pulls,
    pub resume_after_none: bool,
    pub make: fn(u32, u64) -> T,
}

impl<T> ProbeIter<T> {
    pub fn new(id: u32, len: u64, resume_after_none: bool, make: fn(u32, u64) -> T) -> (Self, Pulls, Pulls) {
        let polls = Pulls::new();
        let nones = Pulls::new();
        (
            ProbeIter {
                id,
                i: 0,
                len,
                polls: polls.clone(),
                nones: nones.clone(),
                resume_after_none,
                make,
            },
            polls,
            nones,
        )
    }
}

impl<T> Iterator for ProbeIter<T> {
    type Item = T;
    fn next(&mut self) -> Option<T> {
        self.polls.bump();
        if self.i < self.len {
            let v = (self.make)(self.id, self.i);
            self.i += 1;
            Some(v)
        } else if self.i == self.len {
            self.i += 1;
            self.nones.bump();
            None
        } else if self.resume_after_none {
            // a stream that "comes back"
            let v = (self.make)(self.id, self.i + 1000);
            self.i += 1;
            Some(v)
        } else {
            self.nones.bump();
            None
        }
    }
    /// Legal but, depending on the probe's id, loose: none / exact / lower bound under-reports and upper
    /// bound over-reports / no lower bound and a generous upper one (as `filter`, `take_while`, `flat_map` give).
    fn size_hint(&self) -> (usize, Option<usize>) {
        if self.resume_after_none {
            return (0, None);
        }
        let left = self.len.saturating_sub(self.i) as usize;
        match self.id % 4 {
            0 => (0, None),
            1 => (left, Some(left)),
            2 => (left / 2, Some(left * 3 + 7)),
            _ => (0, Some(left + 100)),
        }
    }
}

/// Counts `next()` calls on any signal (and `is_exhausted` queries) without changing it.
#[derive(Clone)]
pub struct Counted<S> {
    pub inner: S,
    pub pulls: Pulls,
}
impl<S: Signal> Counted<S> {
    pub fn new(inner: S) -> (Self, Pulls) {
        let pulls = Pulls::new();
        (
            Counted {
                inner,
                pulls: pulls.clone(),
            },
            pulls,
        )
    }
}
impl<S: Signal> Signal for Counted<S> {
    type Frame = S::Frame;
    fn next(&mut self) -> S::Frame {
        self.pulls.bump();
        self.inner.next()
    }
    fn is_exhausted(&self) -> bool {
        self.inner.is_exhausted()
    }
}

/// Dynamic composition: the in-tree `Box<dyn Signal>` impl is dead code (cfg typo), so the
/// harness forwards through its own box.
pub struct Dyn<'a, F>(pub Box<dyn Signal<Frame = F> + 'a>);
impl<'a, F: Frame> Signal for Dyn<'a, F> {
    type Frame = F;
    fn next(&mut self) -> F {
        self.0.next()
    }
    fn is_exhausted(&self) -> bool {
        self.0.is_exhausted()
    }
}
