//! C12 — fork gives both branches the identical stream under every pull interleaving.
//!
//! Actors: branch A consumer, branch B consumer, probe source.  The scheduler never lets the lead
//! exceed the ring-buffer capacity (the property's precondition) but is biased toward lead ==
//! capacity, lead sign flips, re-splitting with frames pending and conversion to Rc branches.

use crate::probe::{InjectedCrash, ProbeSignal, Pulls, TagFrame};
use std::cell::Cell;
use std::rc::Rc;
use dasp_ring_buffer::{Bounded, SliceMut};
use dasp_signal::Signal;
use simcore::{check, check_eq, Observer, Op, OpSpec, Rng, Scenario, Source, Violation};

pub struct ForkScenario;

const O_PULL_A: u8 = 0;
const O_PULL_B: u8 = 1;
const O_BURST: u8 = 2; // a = branch (0/1), b = count
const O_RESPLIT: u8 = 3;
const O_TO_RC: u8 = 4;
const O_CRASH_PULL: u8 = 5; // a = branch: the source's next() fails (unwinds) if this pull reaches it

static OPS: [OpSpec; 6] = [
    OpSpec { name: "pull_a", shrink: 0 },
    OpSpec { name: "pull_b", shrink: 0 },
    OpSpec { name: "burst", shrink: 2 },
    OpSpec { name: "resplit_by_ref", shrink: 0 },
    OpSpec { name: "to_rc", shrink: 0 },
    OpSpec { name: "pull_source_crashes", shrink: 0 },
];

const F_STALL: usize = 0;
const F_LEAD_FLIP: usize = 1;
const F_RESPLIT_PENDING: usize = 2;
const F_TO_RC_PENDING: usize = 3;
const F_RECOVERED_START: usize = 4;
const F_SOURCE_EOF: usize = 5;
const F_LAGGARD_OVERTAKES: usize = 6;
const F_CLONE: usize = 7;
const F_LONE_LAGGARD: usize = 8;
const F_SOURCE_CRASH: usize = 9;

const P_LEAD_EQ_CAP: usize = 0;
const P_CAP1: usize = 1;
const P_CAUGHT_UP_EXACTLY: usize = 2;
const P_RC_MODE: usize = 3;
const P_B_LEADS: usize = 4;
const P_HUGE_CAP: usize = 5;

struct Model {
    cap: u64,
    ca: u64,
    cb: u64,
    last_sign: i64,
}

impl Model {
    fn can_pull(&self, branch: u8) -> bool {
        let (me, other) = if branch == 0 { (self.ca, self.cb) } else { (self.cb, self.ca) };
        me + 1 <= other + self.cap
    }
    fn abs(&self, rc: bool) -> u64 {
        let lead = self.ca as i64 - self.cb as i64;
        ((lead + 16) as u64) << 8 | self.cap << 1 | rc as u64
    }
}

struct Sched {
    policy: i64,
    steps: usize,
    done: usize,
    allow_rc: bool,
    allow_resplit: bool,
    leader: u8,
    drift: i64,
    allow_crash: bool,
}

fn gen_op(r: &mut Rng, m: &Model, st: &mut Sched, rc: bool) -> Option<Op> {
    if st.done >= st.steps {
        return None;
    }
    if !rc && st.allow_resplit && r.chance(1, 25) {
        return Some(Op::k(O_RESPLIT));
    }
    if !rc && st.allow_rc && r.chance(1, 40) {
        return Some(Op::k(O_TO_RC));
    }
    if st.allow_crash && r.chance(1, 10) {
        return Some(Op::kab(O_CRASH_PULL, r.range(0, 1), 0));
    }
    let lead = m.ca as i64 - m.cb as i64;
    let op = match st.policy {
        // lock-step-ish alternation
        1 => {
            if lead > 0 {
                Op::k(O_PULL_B)
            } else if lead < 0 {
                Op::k(O_PULL_A)
            } else {
                Op::k(if r.bool() { O_PULL_A } else { O_PULL_B })
            }
        }
        // one branch stalls while the other runs to the capacity, then catches up (maybe over)
        2 => {
            let l = st.leader;
            if m.can_pull(l) && r.chance(7, 8) {
                Op::k(if l == 0 { O_PULL_A } else { O_PULL_B })
            } else {
                let other = 1 - l;
                let lag = lead.unsigned_abs() as i64;
                let k = match r.below(3) {
                    0 => lag,                             // catch up exactly
                    1 => lag + r.range(1, m.cap as i64),  // overtake
                    _ => r.range(1, lag.max(1)),
                };
                st.leader = if r.bool() { other } else { l };
                Op::kab(O_BURST, other as i64, k.max(1))
            }
        }
        // bursts up to the capacity
        3 => Op::kab(O_BURST, r.range(0, 1), r.range(1, m.cap as i64 + 1)),
        // ping-pong with drifting lead
        4 => {
            st.drift += r.range(-1, 1);
            let target = st.drift.clamp(-(m.cap as i64), m.cap as i64);
            if lead < target {
                Op::k(O_PULL_A)
            } else if lead > target {
                Op::k(O_PULL_B)
            } else {
                Op::k(if r.bool() { O_PULL_A } else { O_PULL_B })
            }
        }
        // huge capacities: whole-buffer bursts so that the ring's write index wraps more than once
        5 => {
            let cap = m.cap as i64;
            let l = st.leader;
            if m.can_pull(l) && r.chance(1, 2) {
                Op::kab(O_BURST, l as i64, r.range(cap / 3, cap))
            } else {
                if r.chance(1, 3) {
                    st.leader = 1 - l;
                }
                Op::kab(O_BURST, (1 - l) as i64, lead.unsigned_abs().max(1) as i64 - if r.bool() { 0 } else { r.range(0, 3).min(lead.unsigned_abs() as i64 - 1).max(0) })
            }
        }
        _ => Op::k(if r.bool() { O_PULL_A } else { O_PULL_B }),
    };
    Some(op)
}

/// Clone the whole un-split fork when its storage allows it (borrowed storage does not).
pub trait ForkClone<S>: Sized {
    fn clone_fork(f: &dasp_signal::Fork<S, Self>) -> Option<dasp_signal::Fork<S, Self>>;
}
impl<S: Clone, T: Clone> ForkClone<S> for Vec<T> {
    fn clone_fork(f: &dasp_signal::Fork<S, Self>) -> Option<dasp_signal::Fork<S, Self>> {
        Some(f.clone())
    }
}
impl<S: Clone, T: Clone> ForkClone<S> for Box<[T]> {
    fn clone_fork(f: &dasp_signal::Fork<S, Self>) -> Option<dasp_signal::Fork<S, Self>> {
        Some(f.clone())
    }
}
impl<'a, S, T> ForkClone<S> for &'a mut [T] {
    fn clone_fork(_: &dasp_signal::Fork<S, Self>) -> Option<dasp_signal::Fork<S, Self>> {
        None
    }
}

trait Branches<F> {
    fn next_a(&mut self) -> F;
    fn next_b(&mut self) -> F;
    fn pending_a(&self) -> usize;
    fn pending_b(&self) -> usize;
}

macro_rules! impl_branches {
    ($a:ident, $b:ident, $($lt:lifetime)?) => {
        impl<$($lt,)? S, D> Branches<S::Frame> for (dasp_signal::$a<$($lt,)? S, D>, dasp_signal::$b<$($lt,)? S, D>)
        where
            S: Signal,
            D: SliceMut<Element = S::Frame>,
            S::Frame: Copy,
        {
            fn next_a(&mut self) -> S::Frame { self.0.next() }
            fn next_b(&mut self) -> S::Frame { self.1.next() }
            fn pending_a(&self) -> usize { self.0.pending_frames() }
            fn pending_b(&self) -> usize { self.1.pending_frames() }
        }
    };
}
impl_branches!(BranchRefA, BranchRefB, 'a);
impl_branches!(BranchRcA, BranchRcB,);

enum Exit {
    End,
    Resplit,
    ToRc,
}

#[allow(clippy::too_many_arguments)]
fn epoch<F: TagFrame, B: Branches<F>>(
    br: &mut B,
    rc: bool,
    m: &mut Model,
    st: &mut Sched,
    end: Option<u64>,
    pulls: &Pulls,
    crash: &Rc<Cell<u32>>,
    src: &mut Source,
    obs: &mut Observer,
) -> Result<Exit, Violation> {
    loop {
        let op = src.next_op(|r| gen_op(r, m, st, rc));
        let Some(op) = op else { return Ok(Exit::End) };
        st.done += 1;
        let pending = m.ca != m.cb;
        match op.k {
            O_RESPLIT if !rc => {
                obs.tick(op.k);
                if pending {
                    obs.fault(F_RESPLIT_PENDING);
                    obs.inflight();
                }
                return Ok(Exit::Resplit);
            }
            O_TO_RC if !rc => {
                obs.tick(op.k);
                if pending {
                    obs.fault(F_TO_RC_PENDING);
                    obs.inflight();
                }
                return Ok(Exit::ToRc);
            }
            O_PULL_A | O_PULL_B | O_BURST | O_CRASH_PULL => {
                let (branch, k) = match op.k {
                    O_PULL_A => (0u8, 1i64),
                    O_PULL_B => (1u8, 1i64),
                    O_CRASH_PULL => ((op.a.clamp(0, 1)) as u8, 1i64),
                    _ => ((op.a.clamp(0, 1)) as u8, op.b.clamp(1, 300_000)),
                };
                if !m.can_pull(branch) {
                    // would exceed the capacity: outside the property's precondition
                    src.skip_last();
                    obs.skipped();
                    continue;
                }
                obs.tick(op.k);
                obs.note(branch as u64 * 97 + k as u64);
                let mut done_k = 0;
                let lead_before = if branch == 0 { m.ca as i64 - m.cb as i64 } else { m.cb as i64 - m.ca as i64 };
                for _ in 0..k {
                    if !m.can_pull(branch) {
                        break;
                    }
                    if m.ca != m.cb {
                        obs.inflight();
                    }
                    let c = if branch == 0 { m.ca } else { m.cb };
                    let other = if branch == 0 { m.cb } else { m.ca };
                    let want: F = ProbeSignal::<F>::expect(5, end, c);
                    let got = if op.k == O_CRASH_PULL {
                        // the source fails on its next pull; the host catches the failure and carries on
                        crash.set(1);
                        let r = std::panic::catch_unwind(std::panic::AssertUnwindSafe(|| if branch == 0 { br.next_a() } else { br.next_b() }));
                        let unfired = crash.replace(0) != 0;
                        match r {
                            Ok(f) => {
                                // served from the queue: the source must not have been touched
                                check!(obs, unfired, "fork.source-crash", "the source's failure was swallowed: next() returned a frame although the source unwound");
                                f
                            }
                            Err(p) => {
                                if !p.is::<InjectedCrash>() {
                                    std::panic::resume_unwind(p);
                                }
                                obs.fault(F_SOURCE_CRASH);
                                if m.ca != m.cb {
                                    obs.inflight();
                                }
                                check!(obs, c >= other, "fork.source-pulls", "a lagging branch (at {}, other at {}) pulled the source", c, other);
                                // no frame was produced: nothing may have been consumed, queued or released
                                check_eq!(obs, pulls.get(), m.ca.max(m.cb), "fork.source-pulls", "source pulls after a failed pull");
                                check_eq!(obs, br.pending_a() as u64, m.cb.saturating_sub(m.ca), "fork.pending", "pending_frames() of branch A after the source failed (A at {}, B at {})", m.ca, m.cb);
                                check_eq!(obs, br.pending_b() as u64, m.ca.saturating_sub(m.cb), "fork.pending", "pending_frames() of branch B after the source failed (A at {}, B at {})", m.ca, m.cb);
                                obs.state(m.abs(rc) ^ 0x8000_0000, op.k);
                                continue;
                            }
                        }
                    } else if branch == 0 {
                        br.next_a()
                    } else {
                        br.next_b()
                    };
                    if c < other && c + 1 == other {
                        obs.probe(P_CAUGHT_UP_EXACTLY);
                    }
                    if branch == 0 {
                        m.ca += 1;
                    } else {
                        m.cb += 1;
                    }
                    done_k += 1;
                    obs.note(got.bits());
                    check_eq!(
                        obs,
                        got,
                        want,
                        "fork.frame",
                        "branch {} at stream position {} (other branch at {}, capacity {})",
                        if branch == 0 { "A" } else { "B" },
                        c,
                        other,
                        m.cap
                    );
                    let pulled = m.ca.max(m.cb);
                    if let Some(e) = end {
                        if pulled > e {
                            obs.fault(F_SOURCE_EOF);
                        }
                    }
                    check_eq!(obs, pulls.get(), pulled, "fork.source-pulls", "source pulled once per distinct frame");
                    check_eq!(
                        obs,
                        br.pending_a() as u64,
                        m.cb.saturating_sub(m.ca),
                        "fork.pending",
                        "pending_frames() of branch A (A at {}, B at {})",
                        m.ca,
                        m.cb
                    );
                    check_eq!(
                        obs,
                        br.pending_b() as u64,
                        m.ca.saturating_sub(m.cb),
                        "fork.pending",
                        "pending_frames() of branch B (A at {}, B at {})",
                        m.ca,
                        m.cb
                    );
                    let lead = m.ca as i64 - m.cb as i64;
                    if lead.unsigned_abs() == m.cap {
                        obs.probe(P_LEAD_EQ_CAP);
                    }
                    if lead < 0 {
                        obs.probe(P_B_LEADS);
                    }
                    let sign = lead.signum();
                    if sign != 0 {
                        if m.last_sign != 0 && sign != m.last_sign {
                            obs.fault(F_LEAD_FLIP);
                        }
                        m.last_sign = sign;
                    }
                }
                if done_k >= 3 {
                    obs.fault(F_STALL);
                }
                let lead_after = if branch == 0 { m.ca as i64 - m.cb as i64 } else { m.cb as i64 - m.ca as i64 };
                if lead_before < 0 && lead_after > 0 {
                    obs.fault(F_LAGGARD_OVERTAKES);
                }
                if op.k == O_BURST && done_k != k {
                    src.amend_last(Op::kab(O_BURST, branch as i64, done_k));
                }
                if rc {
                    obs.probe(P_RC_MODE);
                }
                obs.state(m.abs(rc), op.k);
            }
            _ => {
                src.skip_last();
                obs.skipped();
            }
        }
    }
}

fn drive<F: TagFrame, D: SliceMut<Element = F> + ForkClone<ProbeSignal<F>>>(
    storage: D,
    start: usize,
    src: &mut Source,
    obs: &mut Observer,
) -> Result<(), Violation> {
    let cap = storage.slice().len() as u64;
    let end = src.cfg("src_len", -1, 300, |r| if r.chance(2, 3) { -1 } else { r.range(0, 300) });
    let end = if end < 0 { None } else { Some(end as u64) };
    let mut st = Sched {
        policy: src.cfg("policy", 0, 5, |r| if cap > 1000 { 5 } else { r.range(0, 4) }),
        steps: src.cfg("steps", 0, 4000, |r| if cap > 1000 { r.range(4, 24) } else if r.chance(1, 40) { r.range(800, 4000) } else { r.range(1, 200) }) as usize,
        done: 0,
        allow_rc: src.cfg("allow_rc", 0, 1, |r| r.chance(1, 3) as i64) == 1,
        allow_resplit: src.cfg("allow_resplit", 0, 1, |r| r.chance(1, 2) as i64) == 1,
        leader: 0,
        drift: 0,
        allow_crash: src.cfg("allow_crash", 0, 1, |r| r.chance(1, 3) as i64) == 1,
    };
    let start_rc = src.cfg("start_rc", 0, 1, |r| r.chance(1, 6) as i64) == 1;
    let clone_on_resplit = src.cfg("clone_on_resplit", 0, 1, |r| r.chance(1, 3) as i64) == 1;
    let (sig, pulls) = ProbeSignal::<F>::new(5, end);
    let crash = sig.crash.clone();
    // an empty ring buffer whose start index may already have wrapped (recovered state)
    let rb = Bounded::from_raw_parts(start, 0, storage);
    if start != 0 {
        obs.fault(F_RECOVERED_START);
    }
    if cap == 1 {
        obs.probe(P_CAP1);
    }
    if cap > 32_768 {
        obs.probe(P_HUGE_CAP);
    }
    let mut fork = sig.fork(rb);
    let mut m = Model {
        cap,
        ca: 0,
        cb: 0,
        last_sign: 0,
    };
    let mut to_rc = start_rc;
    while !to_rc {
        let mut br = fork.by_ref();
        match epoch(&mut br, false, &mut m, &mut st, end, &pulls, &crash, src, obs)? {
            Exit::End => return Ok(()),
            Exit::Resplit => {
                // snapshot/restore: a clone of the un-split fork carries source, queue and flag
                if clone_on_resplit {
                    if let Some(c) = D::clone_fork(&fork) {
                        obs.fault(F_CLONE);
                        fork = c;
                    }
                }
                continue;
            }
            Exit::ToRc => to_rc = true,
        }
    }
    let mut br = fork.by_rc();
    epoch(&mut br, true, &mut m, &mut st, end, &pulls, &crash, src, obs)?;
    // epilogue: one of the reference-counted handles is dropped while the other may still lag; the
    // survivor is owed every frame queued for it and then carries on with the source alone
    let drop_branch = src.cfg("drop_branch", 0, 2, |r| if r.chance(1, 3) { r.range(1, 2) } else { 0 });
    let lone_pulls = src.cfg("lone_pulls", 0, 60, |r| r.range(0, 60)) as u64;
    if drop_branch != 0 {
        let (a, b) = br;
        let survivor_is_a = drop_branch == 2;
        let (mut c, other) = if survivor_is_a { (m.ca, m.cb) } else { (m.cb, m.ca) };
        if c < other {
            obs.fault(F_LONE_LAGGARD);
            obs.inflight();
        }
        let mut next: Box<dyn FnMut() -> (F, usize)> = if survivor_is_a {
            drop(b);
            let mut a = a;
            Box::new(move || {
                let f = a.next();
                (f, a.pending_frames())
            })
        } else {
            drop(a);
            let mut b = b;
            Box::new(move || {
                let f = b.next();
                (f, b.pending_frames())
            })
        };
        for _ in 0..lone_pulls {
            let want: F = ProbeSignal::<F>::expect(5, end, c);
            let (got, pending) = next();
            c += 1;
            check_eq!(
                obs,
                got,
                want,
                "fork.lone-branch-frame",
                "branch {} at stream position {} after the other handle was dropped at {}",
                if survivor_is_a { "A" } else { "B" },
                c - 1,
                other
            );
            check_eq!(obs, pulls.get(), c.max(other), "fork.source-pulls", "source pulled once per distinct frame (one handle dropped)");
            check_eq!(obs, pending as u64, other.saturating_sub(c), "fork.pending", "pending_frames() of the surviving branch at {} (other dropped at {})", c, other);
        }
    }
    Ok(())
}

fn with_storage<F: TagFrame>(src: &mut Source, obs: &mut Observer) -> Result<(), Violation> {
    let cap = src.cfg("cap", 1, 140_000, |r| match r.below(20) {
        // very rarely a capacity beyond 2^16 (index arithmetic shortcuts tend to break there)
        0 if r.chance(1, 300) => *r.pick(&[46_511i64, 65_535, 65_537, 72_000, 96_000, 100_000, 131_071]),
        0..=3 => 1,
        4..=7 => 2,
        8 => *r.pick(&[12i64, 15, 16, 17, 31, 32, 33, 64, 65, 100, 128]),
        9 => r.range(9, 130),
        _ => r.range(1, 8),
    }) as usize;
    let start = src.cfg("rb_start", 0, cap as i64 - 1, |r| {
        if r.bool() {
            0
        } else {
            r.range(0, cap as i64 - 1)
        }
    }) as usize;
    let storage = src.cfg("storage", 0, 2, |r| r.range(0, 2));
    let data: Vec<F> = vec![F::EQUILIBRIUM; cap];
    match storage {
        0 => drive::<F, Vec<F>>(data, start, src, obs),
        1 => drive::<F, Box<[F]>>(data.into_boxed_slice(), start, src, obs),
        _ => {
            let mut d = data;
            drive::<F, &mut [F]>(&mut d[..], start, src, obs)
        }
    }
}

impl Scenario for ForkScenario {
    fn name(&self) -> &'static str {
        "fork"
    }
    fn property(&self) -> &'static str {
        "C12"
    }
    fn ops(&self) -> &'static [OpSpec] {
        &OPS
    }
    fn faults(&self) -> &'static [&'static str] {
        &[
            "stall: one branch pulls >= 3 in a row while the other waits",
            "lead sign flip (leader and laggard swap)",
            "re-split by_ref() while frames are pending",
            "conversion to by_rc() while frames are pending",
            "recovered ring buffer (empty, start != 0)",
            "source end-of-stream reached",
            "laggard overtakes in one burst (queue hand-over)",
            "fork cloned between two splits (possibly with frames pending), the clone is used from then on",
            "one reference-counted handle dropped while the other still lags",
            "source crash: the source's next() unwinds in the middle of a branch pull; the host catches it and carries on",
        ]
    }
    fn probes(&self) -> &'static [&'static str] {
        &[
            "lead == capacity",
            "capacity == 1",
            "laggard catches up exactly",
            "operation on Rc branches",
            "branch B leads",
            "capacity above 2^15",
        ]
    }
    fn rule(&self) -> &'static str {
        "case = (frame type, capacity 1..8, storage kind, ring start offset, source length, policy uniform/alternate/\
         stall-and-catch-up/bursts/drifting ping-pong, seeded pull/burst/resplit/to_rc schedule with lead <= capacity); \
         non-trivial = at least one fault kind fired and at least one pull executed while frames were pending; \
         distinct = distinct hash of (ops, frames observed)"
    }
    fn real(&self) -> &'static [&'static str] {
        &["dasp_signal::{Fork, BranchRefA/B, BranchRcA/B, Signal::fork}", "dasp_ring_buffer::Bounded push/pop underneath"]
    }
    fn stubs(&self) -> &'static [&'static str] {
        &["ProbeSignal source", "single-copy log + two cursors model"]
    }
    fn assumptions(&self) -> &'static [&'static str] {
        &["the scheduler never lets one branch lead by more than the capacity (precondition of the property)"]
    }
    fn runs(&self, tier: &str) -> u64 {
        if tier == "quick" {
            1_500_000
        } else {
            60_000_000
        }
    }
    fn run(&self, src: &mut Source, obs: &mut Observer) -> Result<(), Violation> {
        let fmt = src.cfg("frame", 0, 2, |r| r.range(0, 2));
        obs.note(fmt as u64);
        match fmt {
            0 => with_storage::<[f32; 2]>(src, obs),
            1 => with_storage::<i16>(src, obs),
            _ => with_storage::<[u8; 3]>(src, obs),
        }
    }
}
