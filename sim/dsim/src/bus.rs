//! C13 — bus: gap-free streams for every output, backlog holds only what laggards need.
//!
//! Actors: up to sixteen live `Output` consumers, an attach/drop operator, a probe source.  The seeded
//! scheduler decides who acts at every step under one of several policies; the oracle is a
//! single-copy log with one cursor per output, checked after every operation (including the
//! backlog length through the `rustaudio_dasp_verif` hook).

use crate::probe::{ProbeSignal, Pulls, TagFrame};
use dasp_signal::bus::{Bus, Output, SignalBus};
use dasp_signal::Signal;
use simcore::{check, check_eq, Observer, Op, OpSpec, Rng, Scenario, Source, Violation};

pub struct BusScenario;

const SLOTS: usize = 16;

const O_SEND: u8 = 0;
const O_NEXT: u8 = 1;
const O_BURST: u8 = 2;
const O_DROP: u8 = 3;
const O_DROP_BUS: u8 = 4;
const O_PROBE: u8 = 5;

static OPS: [OpSpec; 6] = [
    OpSpec { name: "send", shrink: 1 },
    OpSpec { name: "next", shrink: 1 },
    OpSpec { name: "burst", shrink: 3 },
    OpSpec { name: "drop", shrink: 1 },
    OpSpec { name: "drop_bus_handle", shrink: 0 },
    OpSpec { name: "probe_pending", shrink: 0 },
];

const F_ATTACH_WHILE_LAG: usize = 0;
const F_DROP_SLOWEST_BACKLOG: usize = 1;
const F_DROP_FASTEST: usize = 2;
const F_DROP_LAST: usize = 3;
const F_ATTACH_AFTER_ALL_DROPPED: usize = 4;
const F_STALL: usize = 5;
const F_BUS_HANDLE_DROPPED: usize = 6;
const F_SOURCE_EOF: usize = 7;
const F_DROP_NEVER_PULLED: usize = 8;
const F_DROP_IN_UNWIND: usize = 9;

const P_BACKLOG_8: usize = 0;
const P_SIX_LIVE: usize = 1;
const P_ALL_CAUGHT_UP_3: usize = 2;
const P_LAG_SPREAD_3: usize = 3;
const P_POP_FRONT_BY_LAGGARD: usize = 4;
const P_TWELVE_LIVE: usize = 5;
const P_PAST_32K: usize = 6;

struct Model {
    cursors: [Option<u64>; SLOTS],
    pulls_by: [u64; SLOTS],
    pulled: u64,
    bus_alive: bool,
    ever_dropped_all: bool,
}

impl Model {
    fn live(&self) -> Vec<usize> {
        (0..SLOTS).filter(|&i| self.cursors[i].is_some()).collect()
    }
    fn min_cursor(&self) -> Option<u64> {
        self.cursors.iter().flatten().copied().min()
    }
    fn max_cursor(&self) -> Option<u64> {
        self.cursors.iter().flatten().copied().max()
    }
    fn backlog(&self) -> u64 {
        match self.min_cursor() {
            Some(m) => self.pulled - m,
            None => 0,
        }
    }
    fn abs(&self) -> u64 {
        let mut lags: Vec<u64> = self
            .cursors
            .iter()
            .flatten()
            .map(|c| (self.pulled - c).min(3))
            .collect();
        lags.sort();
        let mut h = lags.len() as u64;
        for l in lags {
            h = h * 5 + l;
        }
        h * 2 + self.bus_alive as u64
    }
}

struct Sched {
    policy: i64,
    steps: usize,
    done: usize,
    max_out: usize,
    allow_drop_bus: bool,
    rr: usize,
    straggler: Option<usize>,
    stall_left: i64,
    never: Option<usize>,
}

fn pick_drop(r: &mut Rng, m: &Model, live: &[usize]) -> usize {
    let x = r.below(10);
    if x < 4 && m.backlog() > 0 {
        let mn = m.min_cursor().unwrap();
        *live.iter().find(|&&i| m.cursors[i] == Some(mn)).unwrap()
    } else if x < 6 {
        let mx = m.max_cursor().unwrap();
        *live.iter().find(|&&i| m.cursors[i] == Some(mx)).unwrap()
    } else {
        *r.pick(live)
    }
}

fn uniform(r: &mut Rng, m: &Model, st: &Sched, exclude: Option<usize>) -> Op {
    let live = m.live();
    let pullers: Vec<usize> = live.iter().copied().filter(|&i| Some(i) != exclude).collect();
    let empty: Vec<usize> = (0..SLOTS).filter(|&i| m.cursors[i].is_none()).collect();
    let can_send = m.bus_alive && !empty.is_empty() && live.len() < st.max_out;
    let w = [
        if can_send { if live.is_empty() { 30 } else { 4 } } else { 0 },
        if pullers.is_empty() { 0 } else { 24 },
        if pullers.is_empty() { 0 } else { 4 },
        if live.is_empty() { 0 } else { 3 },
        if st.allow_drop_bus && m.bus_alive && !live.is_empty() { 1 } else { 0 },
        1,
    ];
    match r.weighted(&w) as u8 {
        O_SEND => Op::ka(O_SEND, *r.pick(&empty) as i64),
        O_NEXT => Op::ka(O_NEXT, *r.pick(&pullers) as i64),
        // (rarely: a fast-forward across 2^15 / 2^16 frames, where internal counters might wrap or rebase)
        O_BURST => Op::kab(O_BURST, *r.pick(&pullers) as i64, if r.chance(1, 2500) { *r.pick(&[32_767i64, 32_768, 40_000, 65_536, 66_000]) } else { r.range(2, 12) }),
        O_DROP => Op::ka(O_DROP, pick_drop(r, m, &live) as i64),
        O_DROP_BUS => Op::k(O_DROP_BUS),
        _ => Op::k(O_PROBE),
    }
}

fn gen_op(r: &mut Rng, m: &Model, st: &mut Sched) -> Option<Op> {
    if st.done >= st.steps {
        return None;
    }
    let live = m.live();
    let op = match st.policy {
        // lock-step rounds with occasional membership changes between rounds
        1 if !live.is_empty() => {
            if st.rr >= live.len() {
                st.rr = 0;
                if r.chance(1, 6) {
                    return Some(uniform(r, m, st, None));
                }
            }
            let s = live[st.rr];
            st.rr += 1;
            Op::ka(O_NEXT, s as i64)
        }
        // one straggler stalls, the others proceed, then it catches up in one burst
        2 if live.len() >= 2 => {
            if st.straggler.map(|s| m.cursors[s].is_none()).unwrap_or(true) {
                st.straggler = Some(*r.pick(&live));
                st.stall_left = r.range(3, 25);
            }
            let s = st.straggler.unwrap();
            if st.stall_left > 0 {
                st.stall_left -= 1;
                uniform(r, m, st, Some(s))
            } else {
                st.straggler = None;
                let lag = m.pulled - m.cursors[s].unwrap();
                // sometimes drop the straggler instead of letting it catch up
                if r.chance(1, 4) {
                    Op::ka(O_DROP, s as i64)
                } else {
                    Op::kab(O_BURST, s as i64, lag.max(1) as i64)
                }
            }
        }
        // bursts
        3 if !live.is_empty() => {
            if r.chance(1, 5) {
                uniform(r, m, st, None)
            } else {
                Op::kab(O_BURST, *r.pick(&live) as i64, r.range(1, 12))
            }
        }
        // an output that never pulls
        4 if live.len() >= 2 => {
            if st.never.map(|s| m.cursors[s].is_none()).unwrap_or(true) {
                st.never = Some(*r.pick(&live));
            }
            let s = st.never.unwrap();
            if r.chance(1, 30) {
                Op::ka(O_DROP, s as i64)
            } else {
                uniform(r, m, st, Some(s))
            }
        }
        _ => uniform(r, m, st, None),
    };
    Some(op)
}

fn drive<F: TagFrame>(src: &mut Source, obs: &mut Observer) -> Result<(), Violation> {
    let end = src.cfg("src_len", -1, 20000, |r| {
        if r.chance(1, 2) {
            -1
        } else if r.chance(1, 3) {
            r.range(0, 6)
        } else {
            r.range(0, 400)
        }
    });
    let end = if end < 0 { None } else { Some(end as u64) };
    let mut st = Sched {
        policy: src.cfg("policy", 0, 4, |r| r.range(0, 4)),
        steps: src.cfg("steps", 0, 3000, |r| if r.chance(1, 50) { r.range(800, 3000) } else { r.range(1, 160) }) as usize,
        done: 0,
        max_out: src.cfg("max_outputs", 1, SLOTS as i64, |r| match r.below(12) {
            0..=2 => 1,
            3..=5 => 2,
            6 => r.range(7, SLOTS as i64),
            _ => r.range(1, 6),
        }) as usize,
        allow_drop_bus: src.cfg("allow_drop_bus", 0, 1, |r| r.chance(1, 5) as i64) == 1,
        rr: 0,
        straggler: None,
        stall_left: 0,
        never: None,
    };
    let unwind_drops = src.cfg("unwind_drops", 0, 1, |r| r.chance(1, 3) as i64) == 1;
    let (sig, pulls): (ProbeSignal<F>, Pulls) = ProbeSignal::new(3, end);
    let mut bus: Option<Bus<ProbeSignal<F>>> = Some(sig.bus());
    let mut outs: Vec<Option<Output<ProbeSignal<F>>>> = (0..SLOTS).map(|_| None).collect();
    let mut m = Model {
        cursors: [None; SLOTS],
        pulls_by: [0; SLOTS],
        pulled: 0,
        bus_alive: true,
        ever_dropped_all: false,
    };

    loop {
        let op = src.next_op(|r| gen_op(r, &m, &mut st));
        let Some(op) = op else { break };
        st.done += 1;
        let slot = (op.a.max(0) as usize).min(SLOTS - 1);
        // legality in the current state (minimised / edited cases may contain illegal ops)
        let legal = match op.k {
            O_SEND => m.bus_alive && m.cursors[slot].is_none(),
            O_NEXT | O_BURST | O_DROP => m.cursors[slot].is_some(),
            O_DROP_BUS => m.bus_alive,
            O_PROBE => true,
            _ => false,
        };
        if !legal {
            src.skip_last();
            obs.skipped();
            continue;
        }
        obs.tick(op.k);
        obs.note(slot as u64 * 31 + op.b as u64);
        if m.backlog() > 0 {
            obs.inflight();
        }
        match op.k {
            O_SEND => {
                if m.backlog() > 0 {
                    obs.fault(F_ATTACH_WHILE_LAG);
                }
                if m.live().is_empty() && m.ever_dropped_all {
                    obs.fault(F_ATTACH_AFTER_ALL_DROPPED);
                }
                outs[slot] = Some(bus.as_ref().unwrap().send());
                m.cursors[slot] = Some(m.pulled);
                m.pulls_by[slot] = 0;
            }
            O_NEXT | O_BURST => {
                let k = if op.k == O_NEXT { 1 } else { op.b.clamp(1, 70_000) };
                for j in 0..k {
                    let c = m.cursors[slot].unwrap();
                    let want: F = ProbeSignal::<F>::expect(3, end, c);
                    let was_min_alone = m.cursors.iter().flatten().filter(|&&x| x <= c).count() == 1;
                    if c < m.pulled && was_min_alone {
                        obs.probe(P_POP_FRONT_BY_LAGGARD);
                    }
                    if j == 0 || j + 1 == k {
                        // exhausted = nothing pending for this output and the source has ended (C05's
                        // "exhaustion propagates through every adaptor", observed on the bus)
                        let want_exh = c == m.pulled && matches!(end, Some(e) if m.pulled >= e);
                        check_eq!(
                            obs,
                            outs[slot].as_ref().unwrap().is_exhausted(),
                            want_exh,
                            "bus.exhausted",
                            "is_exhausted() of output {} at stream position {} ({} pulled from a source of {:?} frames)",
                            slot,
                            c,
                            m.pulled,
                            end
                        );
                    }
                    let got = outs[slot].as_mut().unwrap().next();
                    if c == m.pulled {
                        m.pulled += 1;
                        if let Some(e) = end {
                            if c >= e {
                                obs.fault(F_SOURCE_EOF);
                            }
                        }
                    }
                    m.cursors[slot] = Some(c + 1);
                    m.pulls_by[slot] += 1;
                    obs.note(got.bits());
                    check_eq!(
                        obs,
                        got,
                        want,
                        "bus.frame",
                        "output {} pull {} of burst: frame at stream position {}",
                        slot,
                        j,
                        c
                    );
                    check_eq!(obs, pulls.get(), m.pulled, "bus.source-pulls", "source pulls after output {} read position {}", slot, c);
                }
                if op.k == O_BURST && k >= 3 {
                    obs.fault(F_STALL);
                }
            }
            O_DROP => {
                let c = m.cursors[slot].unwrap();
                let live = m.live();
                if live.len() == 1 {
                    obs.fault(F_DROP_LAST);
                    m.ever_dropped_all = true;
                } else {
                    if Some(c) == m.min_cursor()
                        && m.backlog() > 0
                        && m.cursors.iter().flatten().filter(|&&x| x == c).count() == 1
                    {
                        obs.fault(F_DROP_SLOWEST_BACKLOG);
                    }
                    if Some(c) == m.max_cursor() && m.backlog() > 0 {
                        obs.fault(F_DROP_FASTEST);
                    }
                }
                if m.pulls_by[slot] == 0 && m.pulled > c {
                    obs.fault(F_DROP_NEVER_PULLED);
                }
                if unwind_drops {
                    // the output is owned by a party that fails: it is dropped by the unwinding, the host
                    // catches the failure and the other outputs carry on
                    obs.fault(F_DROP_IN_UNWIND);
                    let o = outs[slot].take();
                    let r = std::panic::catch_unwind(std::panic::AssertUnwindSafe(move || {
                        let _owned = o;
                        std::panic::panic_any(crate::probe::InjectedCrash);
                    }));
                    if let Err(p) = r {
                        if !p.is::<crate::probe::InjectedCrash>() {
                            std::panic::resume_unwind(p);
                        }
                    }
                } else {
                    outs[slot] = None;
                }
                m.cursors[slot] = None;
            }
            O_DROP_BUS => {
                obs.fault(F_BUS_HANDLE_DROPPED);
                bus = None;
                m.bus_alive = false;
            }
            _ => {}
        }
        // cross-invariants after every operation
        check_eq!(obs, pulls.get(), m.pulled, "bus.source-pulls", "source pulled once per distinct frame");
        for i in 0..SLOTS {
            if let (Some(o), Some(c)) = (outs[i].as_ref(), m.cursors[i]) {
                check_eq!(
                    obs,
                    o.pending_frames() as u64,
                    m.pulled - c,
                    "bus.pending",
                    "pending_frames() of output {} after {}",
                    i,
                    OPS[op.k as usize].name
                );
            }
        }
        if let Some(b) = bus.as_ref() {
            check_eq!(
                obs,
                b.verif_backlog_len() as u64,
                m.backlog(),
                "bus.backlog",
                "backlog length after {} (slowest live lag)",
                OPS[op.k as usize].name
            );
            // (the property speaks about the backlog, not the registry: an implementation may tidy up
            // dropped outputs lazily, so only "no live output is missing" is asserted)
            check!(
                obs,
                b.verif_live_outputs() >= m.live().len(),
                "bus.live-outputs",
                "registered outputs: {} for {} live ones",
                b.verif_live_outputs(),
                m.live().len()
            );
        }
        let live_n = m.live().len();
        if m.pulled > 32_768 {
            obs.probe(P_PAST_32K);
        }
        if m.backlog() >= 8 {
            obs.probe(P_BACKLOG_8);
        }
        if live_n >= 6 {
            obs.probe(P_SIX_LIVE);
        }
        if live_n >= 12 {
            obs.probe(P_TWELVE_LIVE);
        }
        if live_n >= 3 && m.backlog() == 0 && m.pulled > 0 {
            obs.probe(P_ALL_CAUGHT_UP_3);
        }
        if live_n >= 3 {
            let mut cs: Vec<u64> = m.cursors.iter().flatten().copied().collect();
            cs.sort();
            cs.dedup();
            if cs.len() >= 3 {
                obs.probe(P_LAG_SPREAD_3);
            }
        }
        obs.state(m.abs(), op.k);
    }
    Ok(())
}

impl Scenario for BusScenario {
    fn name(&self) -> &'static str {
        "bus"
    }
    fn property(&self) -> &'static str {
        "C13"
    }
    fn ops(&self) -> &'static [OpSpec] {
        &OPS
    }
    fn faults(&self) -> &'static [&'static str] {
        &[
            "attach while others lag (backlog > 0)",
            "drop the unique slowest output while backlog > 0",
            "drop the fastest output while backlog > 0",
            "drop the last live output",
            "attach after all outputs were dropped",
            "burst / catch-up of >= 3 pulls by one output (others stalled)",
            "bus handle dropped while outputs live",
            "source end-of-stream reached",
            "drop an output that never pulled while frames were pending for it",
            "output dropped by an unwinding failure of its owner (caught by the host), the others carry on",
        ]
    }
    fn probes(&self) -> &'static [&'static str] {
        &[
            "backlog >= 8",
            ">= 6 live outputs",
            ">= 3 live outputs all caught up",
            ">= 3 distinct lags at once",
            "laggard that alone needed the front frame read it (front pop path)",
            ">= 12 live outputs (two-level BTreeMap)",
            "operation after more than 32768 frames were pulled",
        ]
    }
    fn rule(&self) -> &'static str {
        "case = (frame type, source length or endless, scheduling policy uniform/lock-step/straggler/bursts/never-puller, \
         max live outputs, seeded send/next/burst/drop schedule); non-trivial = at least one fault kind fired and at least \
         one operation executed while the backlog was non-empty; distinct = distinct hash of (ops, frames observed)"
    }
    fn real(&self) -> &'static [&'static str] {
        &["dasp_signal::bus::{Bus, Output, SharedNode} incl. Drop for Output", "cfg(rustaudio_dasp_verif) backlog accessors"]
    }
    fn stubs(&self) -> &'static [&'static str] {
        &["ProbeSignal source", "single-copy log + cursor model"]
    }
    fn assumptions(&self) -> &'static [&'static str] {
        &["single-threaded use (Rc<RefCell>): consumer order is the only nondeterminism and is owned by the scheduler"]
    }
    fn runs(&self, tier: &str) -> u64 {
        if tier == "quick" {
            1_000_000
        } else {
            20_000_000
        }
    }
    fn run(&self, src: &mut Source, obs: &mut Observer) -> Result<(), Violation> {
        let fmt = src.cfg("frame", 0, 2, |r| r.range(0, 2));
        obs.note(fmt as u64);
        match fmt {
            0 => drive::<f64>(src, obs),
            1 => drive::<[f32; 2]>(src, obs),
            _ => drive::<i16>(src, obs),
        }
    }
}
