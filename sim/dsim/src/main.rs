//! dsim: deterministic simulation scenarios over the std build of the in-tree dasp crates.
mod adaptors;
mod alloc;
mod adframe;
mod buffered;
mod bus;
mod converter;
mod envelope;
mod eof;
mod fork;
mod osc;
mod probe;
mod raw;
mod ringbuf;
mod rms;
mod sinc;
mod tree;

use simcore::Scenario;

#[global_allocator]
static GLOBAL: simcore::alloc::CountingAlloc = simcore::alloc::CountingAlloc;

fn main() {
    let scens: Vec<&dyn Scenario> = vec![
        &ringbuf::BoundedScenario,
        &ringbuf::FixedScenario,
        &bus::BusScenario,
        &fork::ForkScenario,
        &buffered::BufferedScenario,
        &adaptors::AdaptorsScenario,
        &eof::EofScenario,
        &converter::ConverterScenario,
        &rms::RmsScenario,
        &alloc::AllocScenario,
        &osc::OscScenario,
        &sinc::SincScenario,
        &envelope::EnvelopeScenario,
    ];
    simcore::cli::main(&scens)
}
