//! dsim: deterministic simulation scenarios over the std build of the in-tree dasp crates.
mod buffered;
mod bus;
mod fork;
mod probe;
mod ringbuf;

use simcore::Scenario;

fn main() {
    let scens: Vec<&dyn Scenario> = vec![
        &ringbuf::BoundedScenario,
        &ringbuf::FixedScenario,
        &bus::BusScenario,
        &fork::ForkScenario,
        &buffered::BufferedScenario,
    ];
    simcore::cli::main(&scens)
}
