//! dsim: deterministic simulation scenarios over the std build of the in-tree dasp crates.
mod ringbuf;

use simcore::Scenario;

fn main() {
    let scens: Vec<&dyn Scenario> = vec![&ringbuf::BoundedScenario, &ringbuf::FixedScenario];
    simcore::cli::main(&scens)
}
