//! C05 — finite signals end exactly once: exhaustion is exact, contagious, then silent.
use crate::tree::{self, Flavor};
use simcore::{Observer, OpSpec, Scenario, Source, Violation};

pub struct EofScenario;

impl Scenario for EofScenario {
    fn name(&self) -> &'static str {
        "eof"
    }
    fn property(&self) -> &'static str {
        "C05"
    }
    fn ops(&self) -> &'static [OpSpec] {
        &tree::OPS
    }
    fn faults(&self) -> &'static [&'static str] {
        &tree::FAULTS
    }
    fn probes(&self) -> &'static [&'static str] {
        &tree::PROBES
    }
    fn rule(&self) -> &'static str {
        "case = (frame type of 9, finite leaves built on the real from_iter / from_interleaved_samples_iter over iterator probes \
         (incl. length 0, torn last frame, non-fused iterators) or probe signals, adaptor stack joining leaves of different lengths, \
         seeded pull / is_exhausted / overrun / until_exhausted / interleaved / take / lift schedule); non-trivial = at least one \
         fault kind fired and at least one pull executed after some leaf had been advanced; distinct = hash of (ops, frames observed)"
    }
    fn real(&self) -> &'static [&'static str] {
        &[
            "dasp_signal::{FromIterator, FromInterleavedSamplesIterator, UntilExhausted, Take, IntoInterleavedSamples(Iterator), lift}",
            "is_exhausted of every length-preserving adaptor incl. Delay, ZipMap/AddAmp/MulAmp OR-propagation",
        ]
    }
    fn stubs(&self) -> &'static [&'static str] {
        &["ProbeIter (scripted end, optionally non-fused), ProbeSignal", "structural exhaustion model + independent closed-form remaining-frames count"]
    }
    fn assumptions(&self) -> &'static [&'static str] {
        &["fork branches, Buffered and bus Outputs are not in this property's adaptor family (see DESIGN section 4, C05)"]
    }
    fn runs(&self, tier: &str) -> u64 {
        if tier == "quick" {
            700_000
        } else {
            30_000_000
        }
    }
    fn run(&self, src: &mut Source, obs: &mut Observer) -> Result<(), Violation> {
        let fmt = src.cfg("frame", 0, 8, |r| r.range(0, 8));
        obs.note(fmt as u64);
        match fmt {
            0 => tree::run_tree::<f64>(Flavor::Eof, src, obs),
            1 => tree::run_tree::<[f32; 2]>(Flavor::Eof, src, obs),
            2 => tree::run_tree::<[i16; 2]>(Flavor::Eof, src, obs),
            3 => tree::run_tree::<[u8; 3]>(Flavor::Eof, src, obs),
            4 => tree::run_tree::<[i32; 1]>(Flavor::Eof, src, obs),
            5 => tree::run_tree::<[dasp_sample::types::U24; 3]>(Flavor::Eof, src, obs),
            6 => tree::run_tree::<[i16; 8]>(Flavor::Eof, src, obs),
            7 => tree::run_tree::<[i16; 12]>(Flavor::Eof, src, obs),
            _ => tree::run_tree::<[f32; 9]>(Flavor::Eof, src, obs),
        }
    }
}
