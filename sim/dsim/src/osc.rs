//! C17 — oscillators and noise sources keep phase and amplitude in range at any rate.
//!
//! The weak end of the family (see DESIGN): what simulation contributes is the control-signal
//! party (`rate.hz(control)`, exactly one control pull per output, control EOF), snapshot/restore
//! (clone mid-stream, lock-step continuation; restart reproduces the prefix) and per-step invariant
//! monitoring; the value clauses are reference recomputation on the seeded inputs.

use crate::probe::{ProbeSignal, Pulls};
use dasp_signal::{self as signal, ConstHz, Hz, Noise, NoiseSimplex, Phase, Saw, Signal, Sine, Square};
use simcore::{check, check_eq, f2i, i2f, Observer, Op, OpSpec, Rng, Scenario, Source, Violation};

pub struct OscScenario;

const O_NEXT: u8 = 0;
const O_SNAPSHOT: u8 = 1;
const O_BURST: u8 = 2;
const O_CRASH_NEXT: u8 = 3; // the control signal's next() fails (unwinds) during this call

static OPS: [OpSpec; 4] = [
    OpSpec { name: "next", shrink: 0 },
    OpSpec { name: "snapshot_clone", shrink: 0 },
    OpSpec { name: "next_many", shrink: 1 },
    OpSpec { name: "next_control_crashes", shrink: 0 },
];

const F_CONTROL_CHANGE: usize = 0;
const F_ABOVE_RATE: usize = 1;
const F_CONTROL_EOF: usize = 2;
const F_SNAPSHOT: usize = 3;
const F_RESTART: usize = 4;
const F_SEED_TOP: usize = 5;
const F_WRAP: usize = 6;
const F_CONTROL_CRASH: usize = 7;

const P_PHASE_EXACT_ZERO_AFTER_WRAP: usize = 0;
const P_HUGE_STEP: usize = 1;
const P_TINY_STEP: usize = 2;
const P_LONG: usize = 3;
const P_SQUARE_AT_HALF: usize = 4;

type Ctl = Hz<ProbeSignal<f64>>;

#[derive(Clone)]
enum Sut {
    PhaseC(Phase<ConstHz>),
    PhaseH(Phase<Ctl>),
    SineC(Sine<ConstHz>),
    SineH(Sine<Ctl>),
    SawC(Saw<ConstHz>),
    SawH(Saw<Ctl>),
    SquareC(Square<ConstHz>),
    SquareH(Square<Ctl>),
    SimplexC(NoiseSimplex<ConstHz>),
    SimplexH(NoiseSimplex<Ctl>),
    Noise(Noise),
    /// the step signals themselves (frames = frequency / rate)
    StepC(ConstHz),
    StepH(Ctl),
}

impl Sut {
    fn next(&mut self) -> f64 {
        match self {
            Sut::PhaseC(s) => s.next(),
            Sut::PhaseH(s) => s.next(),
            Sut::SineC(s) => s.next(),
            Sut::SineH(s) => s.next(),
            Sut::SawC(s) => s.next(),
            Sut::SawH(s) => s.next(),
            Sut::SquareC(s) => s.next(),
            Sut::SquareH(s) => s.next(),
            Sut::SimplexC(s) => s.next(),
            Sut::SimplexH(s) => s.next(),
            Sut::Noise(s) => s.next(),
            Sut::StepC(s) => s.next(),
            Sut::StepH(s) => s.next(),
        }
    }
    /// `self.clone_from(src)` on the generator itself (the enum's derived Clone would fall back to
    /// `*self = src.clone()`); false if the two are of different kinds
    fn clone_from_same(&mut self, src: &Sut) -> bool {
        match (self, src) {
            (Sut::PhaseC(a), Sut::PhaseC(b)) => a.clone_from(b),
            (Sut::PhaseH(a), Sut::PhaseH(b)) => a.clone_from(b),
            (Sut::SineC(a), Sut::SineC(b)) => a.clone_from(b),
            (Sut::SineH(a), Sut::SineH(b)) => a.clone_from(b),
            (Sut::SawC(a), Sut::SawC(b)) => a.clone_from(b),
            (Sut::SawH(a), Sut::SawH(b)) => a.clone_from(b),
            (Sut::SquareC(a), Sut::SquareC(b)) => a.clone_from(b),
            (Sut::SquareH(a), Sut::SquareH(b)) => a.clone_from(b),
            (Sut::SimplexC(a), Sut::SimplexC(b)) => a.clone_from(b),
            (Sut::SimplexH(a), Sut::SimplexH(b)) => a.clone_from(b),
            (Sut::Noise(a), Sut::Noise(b)) => a.clone_from(b),
            (Sut::StepC(a), Sut::StepC(b)) => a.clone_from(b),
            (Sut::StepH(a), Sut::StepH(b)) => a.clone_from(b),
            _ => return false,
        }
        true
    }
    fn is_exhausted(&self) -> Option<bool> {
        match self {
            Sut::StepC(s) => Some(s.is_exhausted()),
            Sut::StepH(s) => Some(s.is_exhausted()),
            // (the oscillators built on a step signal do not forward exhaustion — they keep the
            // default `false` — and no property says they should: not observed)
            _ => None,
        }
    }
}

/// Frequency schedule of the control signal: a pure function of (id, index).
fn ctl_hz(id: u32, idx: u64) -> f64 {
    let kind = id % 6;
    let base = [110.0, 440.0, 1000.0, 0.5, 19_999.0, 3.0e6][((id / 6) % 6) as usize];
    match kind {
        0 => base,
        1 => base * (1.0 + (idx / 16) as f64),                // stepped
        2 => base + idx as f64 * 7.25,                         // sweep
        3 => if idx % 11 < 3 { base * 1.0e5 } else { base },   // bursts far above any audio rate
        4 => if idx % 5 == 0 { 0.0 } else { base },            // drops to 0 Hz
        _ => {
            let mut r = Rng::new(simcore::rng::mix(&[id as u64, idx]));
            r.f64_in(0.0, 2.0 * base)
        }
    }
}

/// Independent statement of the noise hash (Hugo Elias' integer noise, as documented).
fn noise_ref(seed: u64) -> f64 {
    let x = (seed << 13) ^ seed;
    let t = x
        .wrapping_mul(x.wrapping_mul(x).wrapping_mul(15_731).wrapping_add(789_221))
        .wrapping_add(1_376_312_589);
    1.0 - (t & 0x7fff_ffff) as f64 / 1_073_741_824.0
}

struct Model {
    kind: i64,
    variable: bool,
    rate: f64,
    hz: f64,
    ctl_id: u32,
    ctl_len: Option<u64>,
    /// the control keeps yielding frequencies after it has started to report exhaustion
    ctl_loud: bool,
    seed: u64,
    phase: f64,
    n: u64,
}

impl Model {
    fn step(&self, n: u64) -> f64 {
        if self.variable {
            let hz = match self.ctl_len {
                Some(l) if n >= l && !self.ctl_loud => 0.0,
                _ => ctl_hz(self.ctl_id, n),
            };
            hz / self.rate
        } else {
            self.hz / self.rate
        }
    }
    fn wrap(&self) -> f64 {
        if self.kind == 4 {
            65_536.0
        } else {
            1.0
        }
    }
}

fn build(m: &Model, ctl_pulls: &mut Option<Pulls>) -> Sut {
    build_with_crash(m, ctl_pulls, &mut None)
}

fn build_with_crash(m: &Model, ctl_pulls: &mut Option<Pulls>, ctl_crash: &mut Option<std::rc::Rc<std::cell::Cell<u32>>>) -> Sut {
    let rate = signal::rate(m.rate);
    if m.kind == 5 {
        return Sut::Noise(signal::noise(m.seed));
    }
    if m.variable {
        let (mut ctl, pulls) = ProbeSignal::<f64>::with(m.ctl_id, m.ctl_len, ctl_hz as fn(u32, u64) -> f64);
        ctl.loud_after_end = m.ctl_loud;
        *ctl_pulls = Some(pulls);
        *ctl_crash = Some(ctl.crash.clone());
        let hz = rate.hz(ctl);
        match m.kind {
            0 => Sut::PhaseH(hz.phase()),
            1 => Sut::SineH(hz.sine()),
            2 => Sut::SawH(hz.saw()),
            3 => Sut::SquareH(hz.square()),
            6 => Sut::StepH(hz),
            _ => Sut::SimplexH(hz.noise_simplex()),
        }
    } else {
        let hz = rate.const_hz(m.hz);
        match m.kind {
            0 => Sut::PhaseC(hz.phase()),
            1 => Sut::SineC(hz.sine()),
            2 => Sut::SawC(hz.saw()),
            3 => Sut::SquareC(hz.square()),
            6 => Sut::StepC(hz),
            _ => Sut::SimplexC(hz.noise_simplex()),
        }
    }
}

/// Check one output against the model and advance the model.
fn check_output(m: &mut Model, got: f64, obs: &mut Observer) -> Result<(), Violation> {
    check!(obs, got.is_finite(), "osc.finite", "output {} of kind {} is {}", m.n, m.kind, got);
    if m.kind == 5 {
        let want = noise_ref(m.seed.wrapping_add(m.n));
        check!(
            obs,
            got == want,
            "osc.noise-pure-function",
            "noise(seed {}) frame {}: got {}, hash of seed+index gives {}",
            m.seed,
            m.n,
            got,
            want
        );
        check!(obs, (-1.0..=1.0).contains(&got), "osc.range", "noise output {} outside [-1, 1]", got);
        m.n += 1;
        return Ok(());
    }
    if m.kind == 6 {
        // the frequency signal used as a signal: frame n is the phase step hz_n / rate
        let want = m.step(m.n);
        check!(obs, got == want, "osc.step", "step output {}: got {}, frequency / rate = {}", m.n, got, want);
        if m.variable && m.n > 0 && m.step(m.n - 1) != want {
            obs.fault(F_CONTROL_CHANGE);
        }
        if m.variable && matches!(m.ctl_len, Some(l) if m.n >= l) {
            obs.fault(F_CONTROL_EOF);
        }
        m.n += 1;
        return Ok(());
    }
    let phase = m.phase;
    check!(
        obs,
        phase >= 0.0 && phase < m.wrap(),
        "osc.phase-range",
        "phase before output {} is {} (must stay in [0, {}))",
        m.n,
        phase,
        m.wrap()
    );
    match m.kind {
        0 => check!(obs, got == phase, "osc.phase", "phase output {}: got {}, model {}", m.n, got, phase),
        1 => {
            let want = (2.0 * std::f64::consts::PI * phase).sin();
            check!(obs, (got - want).abs() <= 1e-12, "osc.sine", "sine output {} at phase {}: got {}, sin(2 pi phase) = {}", m.n, phase, got, want);
        }
        2 => {
            let want = 1.0 - 2.0 * phase;
            check!(obs, got == want, "osc.saw", "saw output {} at phase {}: got {}, 1 - 2 phase = {}", m.n, phase, got, want);
        }
        3 => {
            let want = if phase < 0.5 { 1.0 } else { -1.0 };
            if phase == 0.5 {
                obs.probe(P_SQUARE_AT_HALF);
            }
            check!(obs, got == want, "osc.square", "square output {} at phase {}: got {}, expected {}", m.n, phase, got, want);
        }
        _ => {}
    }
    if m.kind != 0 {
        check!(obs, (-1.0..=1.0).contains(&got), "osc.range", "output {} = {} outside [-1, 1] (kind {}, phase {})", m.n, got, m.kind, phase);
    }
    let step = m.step(m.n);
    if step >= 1.0 {
        obs.fault(F_ABOVE_RATE);
    }
    if step > 1e6 {
        obs.probe(P_HUGE_STEP);
    }
    if step > 0.0 && step < 1e-9 {
        obs.probe(P_TINY_STEP);
    }
    if m.variable && m.n > 0 && m.step(m.n - 1) != step {
        obs.fault(F_CONTROL_CHANGE);
    }
    if m.variable && matches!(m.ctl_len, Some(l) if m.n >= l) {
        obs.fault(F_CONTROL_EOF);
    }
    let next = (phase + step) % m.wrap();
    if phase + step >= m.wrap() {
        obs.fault(F_WRAP);
        if next == 0.0 {
            obs.probe(P_PHASE_EXACT_ZERO_AFTER_WRAP);
        }
    }
    m.phase = next;
    m.n += 1;
    Ok(())
}

fn draw_rate(r: &mut Rng) -> f64 {
    match r.below(8) {
        0 => 44_100.0,
        1 => 48_000.0,
        2 => 1.0,
        3 => 4.0,
        4 => 1e-3,
        5 => 1e9,
        _ => r.f64_in(0.0, 1.0).mul_add(96_000.0, 1.0),
    }
}

fn draw_hz(r: &mut Rng, rate: f64) -> f64 {
    match r.below(10) {
        0 => 0.0,
        1 => rate,             // step exactly 1
        2 => rate / 2.0,       // lands exactly on 0.5
        3 => rate * 2.5,
        4 => rate / 4.0,
        5 => rate * 1e-12,
        6 => rate * 1e12,
        7 => 1e300_f64.min(rate * 1e290),
        _ => r.f64_in(0.0, 1.0) * rate * 1.5,
    }
}

impl Scenario for OscScenario {
    fn name(&self) -> &'static str {
        // (the same scenario is also built against the no_std feature set, see dsim-nostd-signal)
        if cfg!(feature = "nostd") {
            "osc-nostd"
        } else {
            "osc"
        }
    }
    fn property(&self) -> &'static str {
        "C17"
    }
    fn ops(&self) -> &'static [OpSpec] {
        &OPS
    }
    fn faults(&self) -> &'static [&'static str] {
        &[
            "control frequency changed between two frames",
            "frequency at or above the sample rate (step >= 1)",
            "control stream ended (0 Hz afterwards)",
            "snapshot: clone taken mid-stream and stepped in lock-step with the original",
            "restart from the same configuration reproduces the recorded prefix",
            "noise seed within 2^16 of u64::MAX",
            "phase wrapped",
            "control crash: the frequency signal's next() unwinds during a frame, the host catches it and carries on",
        ]
    }
    fn probes(&self) -> &'static [&'static str] {
        &[
            "phase exactly 0 after a wrap",
            "step > 1e6",
            "0 < step < 1e-9",
            "run of >= 5000 frames",
            "square evaluated at phase exactly 0.5",
        ]
    }
    fn rule(&self) -> &'static str {
        "case = (generator phase/sine/saw/square/simplex/noise or the frequency signal itself, constant frequency or rate.hz(control probe) with schedule constant/stepped/\
         sweep/bursts/zero-drops/random and optional end, rate from 1e-3 to 1e9, frequency from 0 to 1e300 (f/rate finite), noise seed incl. \
         top of the u64 range, seeded next / next_many / snapshot schedule, final restart check); non-trivial = at least one fault kind \
         fired and at least one frame produced after the first; distinct = hash of (configuration, outputs)"
    }
    fn real(&self) -> &'static [&'static str] {
        &["dasp_signal::{Rate, ConstHz, Hz, Phase, Sine, Saw, Square, Noise, NoiseSimplex} incl. Clone"]
    }
    fn stubs(&self) -> &'static [&'static str] {
        &["ProbeSignal<f64> control signal with pull counter", "phase recurrence model, independent noise hash"]
    }
    fn assumptions(&self) -> &'static [&'static str] {
        &[
            "frequency / rate is finite (an infinite step is NaN by IEEE)",
            "simplex noise: only range, determinism and control-pull accounting are checked (its value function is not re-derived)",
        ]
    }
    fn runs(&self, tier: &str) -> u64 {
        // (the no_std twin build of the same scenario runs a third of the budget)
        let div = if cfg!(feature = "nostd") { 3 } else { 1 };
        if tier == "quick" {
            400_000 / div
        } else {
            40_000_000 / div
        }
    }
    fn run(&self, src: &mut Source, obs: &mut Observer) -> Result<(), Violation> {
        let kind = src.cfg("kind", 0, 6, |r| if r.chance(1, 12) { 6 } else { r.range(0, 5) });
        let variable = kind != 5 && src.cfg("variable", 0, 1, |r| r.range(0, 1)) == 1;
        let rate = i2f(src.cfg("rate", i64::MIN, i64::MAX, |r| f2i(draw_rate(r))));
        let rate = if rate.is_finite() && rate >= 1e-3 && rate <= 1e9 { rate } else { 44_100.0 };
        let hz = i2f(src.cfg("hz", i64::MIN, i64::MAX, |r| f2i(draw_hz(r, rate))));
        let hz = if hz.is_finite() && hz >= 0.0 && (hz / rate).is_finite() { hz } else { 440.0 };
        let ctl_id = src.cfg("ctl_id", 0, 35, |r| r.range(0, 35)) as u32;
        let ctl_len = src.cfg("ctl_len", -1, 3000, |r| if r.chance(2, 3) { -1 } else { r.range(0, 300) });
        // "exhausted" is not "silent": a third of the finite controls keep their schedule past the end
        let ctl_loud = src.cfg("ctl_loud", 0, 1, |r| (ctl_len >= 0 && r.chance(1, 3)) as i64) == 1;
        let seed = src.cfg("seed", i64::MIN, i64::MAX, |r| match r.below(4) {
            0 => -1 - if r.bool() { r.range(0, 300) } else { r.range(0, 1 << 16) },
            1 => r.range(0, 1000),
            _ => r.next_u64() as i64,
        }) as u64;
        let long = src.cfg("long", 0, 1, |r| r.chance(1, 100) as i64) == 1;
        let steps = src.cfg("steps", 1, 20_000, |r| if long { r.range(5_000, 20_000) } else { r.range(1, 300) }) as usize;
        if long {
            obs.probe(P_LONG);
        }
        if kind == 5 && seed > u64::MAX - (1 << 16) {
            obs.fault(F_SEED_TOP);
        }
        let mut m = Model {
            kind,
            variable,
            rate,
            hz,
            ctl_id,
            ctl_len: if ctl_len < 0 { None } else { Some(ctl_len as u64) },
            ctl_loud,
            seed,
            phase: 0.0,
            n: 0,
        };
        obs.note(kind as u64 * 2 + variable as u64);
        obs.note_f64(rate);
        obs.note_f64(hz);
        let mut ctl_pulls: Option<Pulls> = None;
        let mut ctl_crash = None;
        let mut sut = build_with_crash(&m, &mut ctl_pulls, &mut ctl_crash);
        let allow_crash = ctl_crash.is_some() && src.cfg("allow_crash", 0, 1, |r| r.chance(1, 3) as i64) == 1;
        let mut twin: Option<(Sut, u64)> = None; // clone and how many lock-steps remain
        let mut stale: Option<Sut> = None;
        let mut twin_pulls = 0u64;
        let mut history: Vec<f64> = Vec::new();
        let mut produced = 0usize;
        loop {
            let op = src.next_op(|r| {
                if produced >= steps {
                    return None;
                }
                Some(match r.below(20) {
                    0 => Op::k(O_SNAPSHOT),
                    1 | 2 => Op::ka(O_BURST, r.range(2, 64)),
                    3 if allow_crash => Op::k(O_CRASH_NEXT),
                    _ => Op::k(O_NEXT),
                })
            });
            let Some(op) = op else { break };
            match op.k {
                O_SNAPSHOT => {
                    obs.tick(op.k);
                    obs.fault(F_SNAPSHOT);
                    // a stale earlier snapshot (kept after its lock-step ended) is overwritten in
                    // place with clone_from; otherwise a fresh clone is taken
                    twin = match stale.take() {
                        Some(mut t) => {
                            if !t.clone_from_same(&sut) {
                                t = sut.clone();
                            }
                            Some((t, 16))
                        }
                        None => Some((sut.clone(), 16)),
                    };
                }
                O_CRASH_NEXT if ctl_crash.is_some() => {
                    // the control signal fails on its next pull; the host catches the failure and carries
                    // on with the same oscillator: no frame was produced, so nothing may have advanced
                    obs.tick(op.k);
                    if m.n > 0 {
                        obs.inflight();
                    }
                    let c = ctl_crash.as_ref().unwrap();
                    c.set(1);
                    let r = std::panic::catch_unwind(std::panic::AssertUnwindSafe(|| sut.next()));
                    c.set(0);
                    match r {
                        Ok(_) => check!(obs, false, "osc.control-pulls", "output {} was produced without pulling the control signal", m.n),
                        Err(p) => {
                            if !p.is::<crate::probe::InjectedCrash>() {
                                std::panic::resume_unwind(p);
                            }
                            obs.fault(F_CONTROL_CRASH);
                        }
                    }
                }
                O_NEXT | O_BURST => {
                    obs.tick(op.k);
                    let k = if op.k == O_NEXT { 1 } else { op.a.clamp(1, 256) };
                    for _ in 0..k {
                        if produced >= 20_000 {
                            break;
                        }
                        if m.n > 0 {
                            obs.inflight();
                        }
                        if let Some(e) = sut.is_exhausted() {
                            // the frequency signal ends with its control signal; a constant one never
                            let want = m.variable && matches!(m.ctl_len, Some(l) if m.n >= l);
                            check_eq!(obs, e, want, "osc.exhausted", "is_exhausted() before output {} (control length {:?})", m.n, m.ctl_len);
                        }
                        let got = sut.next();
                        produced += 1;
                        if history.len() < 2_000 {
                            history.push(got);
                        }
                        obs.note_f64(got);
                        check_output(&mut m, got, obs)?;
                        if let Some((t, left)) = twin.as_mut() {
                            let g2 = t.next();
                            twin_pulls += 1;
                            check!(
                                obs,
                                g2.to_bits() == got.to_bits(),
                                "osc.clone-diverges",
                                "frame {}: the clone taken mid-stream produced {} where the original produced {}",
                                m.n - 1,
                                g2,
                                got
                            );
                            *left -= 1;
                            if *left == 0 {
                                stale = twin.take().map(|(t, _)| t);
                            }
                        }
                        if let Some(p) = &ctl_pulls {
                            // the clone shares the probe's counter: it accounts for its own pulls
                            check_eq!(obs, p.get(), m.n + twin_pulls, "osc.control-pulls", "control frames consumed after {} output frames", m.n);
                        }
                    }
                    obs.state((kind as u64) << 8 | (m.phase / m.wrap() * 8.0) as u64, op.k);
                }
                _ => {
                    src.skip_last();
                    obs.skipped();
                }
            }
        }
        // restart: a fresh generator with the same configuration reproduces the recorded prefix
        if !history.is_empty() {
            obs.fault(F_RESTART);
            let mut dummy = None;
            let mut fresh = build(&m, &mut dummy);
            for (i, want) in history.iter().enumerate() {
                let g = fresh.next();
                check!(
                    obs,
                    g.to_bits() == want.to_bits(),
                    "osc.restart-diverges",
                    "frame {} after a restart is {}, the first run produced {}",
                    i,
                    g,
                    want
                );
            }
            if kind == 5 && history.len() > 3 {
                // pure function of seed + index: starting at seed + k yields the tail
                let k = history.len() as u64 / 2;
                let mut tail = signal::noise(seed.wrapping_add(k));
                check!(
                    obs,
                    tail.next().to_bits() == history[k as usize].to_bits(),
                    "osc.noise-pure-function",
                    "noise(seed + {}) first frame differs from frame {} of noise(seed)",
                    k,
                    k
                );
            }
        }
        Ok(())
    }
}
