//! Minimal JSON value + writer (no dependencies).

#[derive(Clone, Debug)]
pub enum Json {
    Null,
    Bool(bool),
    Int(i64),
    Num(f64),
    Str(String),
    Arr(Vec<Json>),
    Obj(Vec<(String, Json)>),
}

impl Json {
    pub fn obj() -> Json {
        Json::Obj(Vec::new())
    }
    pub fn s(x: impl Into<String>) -> Json {
        Json::Str(x.into())
    }
    pub fn set(&mut self, k: &str, v: Json) -> &mut Self {
        if let Json::Obj(items) = self {
            if let Some(e) = items.iter_mut().find(|(n, _)| n == k) {
                e.1 = v;
            } else {
                items.push((k.to_string(), v));
            }
        }
        self
    }
    pub fn strs(xs: &[&str]) -> Json {
        Json::Arr(xs.iter().map(|s| Json::s(*s)).collect())
    }

    pub fn render(&self) -> String {
        let mut out = String::new();
        self.write(&mut out, 0);
        out.push('\n');
        out
    }

    fn write(&self, out: &mut String, ind: usize) {
        match self {
            Json::Null => out.push_str("null"),
            Json::Bool(b) => out.push_str(if *b { "true" } else { "false" }),
            Json::Int(i) => out.push_str(&i.to_string()),
            Json::Num(f) => {
                if f.is_finite() {
                    let s = format!("{}", f);
                    out.push_str(&s);
                    if !s.contains('.') && !s.contains('e') && !s.contains('E') {
                        out.push_str(".0");
                    }
                } else {
                    out.push_str("null");
                }
            }
            Json::Str(s) => {
                out.push('"');
                for c in s.chars() {
                    match c {
                        '"' => out.push_str("\\\""),
                        '\\' => out.push_str("\\\\"),
                        '\n' => out.push_str("\\n"),
                        '\r' => out.push_str("\\r"),
                        '\t' => out.push_str("\\t"),
                        c if (c as u32) < 0x20 => out.push_str(&format!("\\u{:04x}", c as u32)),
                        c => out.push(c),
                    }
                }
                out.push('"');
            }
            Json::Arr(xs) => {
                if xs.is_empty() {
                    out.push_str("[]");
                    return;
                }
                out.push_str("[\n");
                for (i, x) in xs.iter().enumerate() {
                    out.push_str(&" ".repeat(ind + 1));
                    x.write(out, ind + 1);
                    if i + 1 < xs.len() {
                        out.push(',');
                    }
                    out.push('\n');
                }
                out.push_str(&" ".repeat(ind));
                out.push(']');
            }
            Json::Obj(items) => {
                if items.is_empty() {
                    out.push_str("{}");
                    return;
                }
                out.push_str("{\n");
                for (i, (k, v)) in items.iter().enumerate() {
                    out.push_str(&" ".repeat(ind + 1));
                    Json::Str(k.clone()).write(out, ind + 1);
                    out.push_str(": ");
                    v.write(out, ind + 1);
                    if i + 1 < items.len() {
                        out.push(',');
                    }
                    out.push('\n');
                }
                out.push_str(&" ".repeat(ind));
                out.push('}');
            }
        }
    }
}
