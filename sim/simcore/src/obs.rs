//! What a run reports: violations, fired-fault counters, reach probes, abstract state coverage
//! and a hash of everything it did and saw (the determinism witness).

use std::collections::HashSet;

#[derive(Clone, Debug, PartialEq)]
pub struct Violation {
    /// Stable identifier of the broken invariant (the minimiser keeps only candidates that break
    /// the same one; known findings are matched on it).
    pub invariant: String,
    pub step: u64,
    pub msg: String,
}

pub const MAX_COUNTERS: usize = 48;

/// Per-thread observer.  Per-run fields are reset by `begin_run`.
pub struct Observer {
    // cumulative
    pub faults: [u64; MAX_COUNTERS],
    pub probes: [u64; MAX_COUNTERS],
    pub opkinds: [u64; 256],
    pub steps_total: u64,
    pub skipped_total: u64,
    pub states: HashSet<u64>,
    pub transitions: HashSet<u64>,
    pub max_states: usize,
    // per run
    pub step: u64,
    pub hash: u64,
    pub run_faults: u64,
    pub run_inflight: u64,
    pub run_ops: u64,
}

impl Default for Observer {
    fn default() -> Self {
        Self::new()
    }
}

impl Observer {
    pub fn new() -> Self {
        Observer {
            faults: [0; MAX_COUNTERS],
            probes: [0; MAX_COUNTERS],
            opkinds: [0; 256],
            steps_total: 0,
            skipped_total: 0,
            states: HashSet::new(),
            transitions: HashSet::new(),
            max_states: 2_000_000,
            step: 0,
            hash: 0,
            run_faults: 0,
            run_inflight: 0,
            run_ops: 0,
        }
    }

    pub fn begin_run(&mut self) {
        self.step = 0;
        self.hash = 0x6a09_e667_f3bc_c908;
        self.run_faults = 0;
        self.run_inflight = 0;
        self.run_ops = 0;
    }

    /// Advance the simulated clock by one step executing an operation of kind `k`.
    #[inline]
    pub fn tick(&mut self, k: u8) {
        self.step += 1;
        self.steps_total += 1;
        self.run_ops += 1;
        self.opkinds[k as usize] += 1;
        self.note(k as u64 ^ 0x5151);
    }

    /// Fold an observed value into the run's trace hash.
    #[inline]
    pub fn note(&mut self, v: u64) {
        let mut h = self.hash ^ v;
        h = h.wrapping_mul(0x9E37_79B9_7F4A_7C15);
        h ^= h >> 29;
        self.hash = h;
    }

    #[inline]
    pub fn note_f64(&mut self, v: f64) {
        self.note(v.to_bits());
    }

    /// A fault kind actually fired (not merely was configured).
    #[inline]
    pub fn fault(&mut self, i: usize) {
        self.faults[i] += 1;
        self.run_faults |= 1 << (i as u64 & 63);
    }

    /// A named rare condition was reached.
    #[inline]
    pub fn probe(&mut self, i: usize) {
        self.probes[i] += 1;
    }

    /// An operation executed while in-flight state existed (lagging consumer, non-empty buffer,
    /// half-turned window, ...): what makes a run non-trivial.
    #[inline]
    pub fn inflight(&mut self) {
        self.run_inflight += 1;
    }

    #[inline]
    pub fn skipped(&mut self) {
        self.skipped_total += 1;
    }

    /// Record the model's abstract state after an operation of kind `k`.
    #[inline]
    pub fn state(&mut self, abs: u64, k: u8) {
        if self.states.len() < self.max_states {
            self.states.insert(abs);
        }
        if self.transitions.len() < self.max_states {
            self.transitions
                .insert(abs.wrapping_mul(0x100_0000_01B3) ^ (k as u64).wrapping_mul(0x9E37_79B9));
        }
    }

    pub fn nontrivial(&self) -> bool {
        self.run_faults != 0 && self.run_inflight != 0
    }

    pub fn merge(&mut self, o: &Observer) {
        for i in 0..MAX_COUNTERS {
            self.faults[i] += o.faults[i];
            self.probes[i] += o.probes[i];
        }
        for i in 0..256 {
            self.opkinds[i] += o.opkinds[i];
        }
        self.steps_total += o.steps_total;
        self.skipped_total += o.skipped_total;
        for s in &o.states {
            self.states.insert(*s);
        }
        for s in &o.transitions {
            self.transitions.insert(*s);
        }
    }
}

/// `check!(obs, cond, "invariant-id", "format", args..)` — return a violation unless `cond`.
#[macro_export]
macro_rules! check {
    ($obs:expr, $cond:expr, $inv:expr, $($fmt:tt)+) => {
        if !($cond) {
            return Err($crate::obs::Violation {
                invariant: ($inv).to_string(),
                step: $obs.step,
                msg: format!($($fmt)+),
            });
        }
    };
}

/// `check_eq!(obs, got, want, "invariant-id", "what")`.
#[macro_export]
macro_rules! check_eq {
    ($obs:expr, $got:expr, $want:expr, $inv:expr, $($fmt:tt)+) => {{
        let g = &$got;
        let w = &$want;
        if g != w {
            return Err($crate::obs::Violation {
                invariant: ($inv).to_string(),
                step: $obs.step,
                msg: format!("{}: got {:?}, model says {:?}", format!($($fmt)+), g, w),
            });
        }
    }};
}
