//! The single source of randomness of a run: xoshiro256** seeded through splitmix64.
//! Nothing else in the simulator is allowed to be nondeterministic.

#[inline]
pub fn splitmix64(state: &mut u64) -> u64 {
    *state = state.wrapping_add(0x9E37_79B9_7F4A_7C15);
    let mut z = *state;
    z = (z ^ (z >> 30)).wrapping_mul(0xBF58_476D_1CE4_E5B9);
    z = (z ^ (z >> 27)).wrapping_mul(0x94D0_49BB_1331_11EB);
    z ^ (z >> 31)
}

/// Mix several integers into one seed (batch seed, scenario id, run index).
pub fn mix(parts: &[u64]) -> u64 {
    let mut s = 0x243F_6A88_85A3_08D3u64;
    let mut out = 0u64;
    for &p in parts {
        s ^= p;
        out = splitmix64(&mut s) ^ out.rotate_left(17);
    }
    out
}

/// FNV-1a over bytes; used for scenario ids and trace hashing.
pub fn fnv(bytes: &[u8]) -> u64 {
    let mut h = 0xcbf2_9ce4_8422_2325u64;
    for &b in bytes {
        h ^= b as u64;
        h = h.wrapping_mul(0x0000_0100_0000_01B3);
    }
    h
}

#[derive(Clone, Debug)]
pub struct Rng {
    s: [u64; 4],
    pub draws: u64,
}

impl Rng {
    pub fn new(seed: u64) -> Self {
        let mut sm = seed;
        let s = [
            splitmix64(&mut sm),
            splitmix64(&mut sm),
            splitmix64(&mut sm),
            splitmix64(&mut sm),
        ];
        Rng { s, draws: 0 }
    }

    #[inline]
    pub fn next_u64(&mut self) -> u64 {
        self.draws += 1;
        let result = self.s[1].wrapping_mul(5).rotate_left(7).wrapping_mul(9);
        let t = self.s[1] << 17;
        self.s[2] ^= self.s[0];
        self.s[3] ^= self.s[1];
        self.s[1] ^= self.s[2];
        self.s[0] ^= self.s[3];
        self.s[2] ^= t;
        self.s[3] = self.s[3].rotate_left(45);
        result
    }

    /// Uniform in 0..n (n >= 1).
    #[inline]
    pub fn below(&mut self, n: u64) -> u64 {
        debug_assert!(n >= 1);
        // multiply-shift; bias is irrelevant for our purposes but the result is deterministic.
        ((self.next_u64() as u128 * n as u128) >> 64) as u64
    }

    /// Uniform in lo..=hi.
    #[inline]
    pub fn range(&mut self, lo: i64, hi: i64) -> i64 {
        debug_assert!(lo <= hi);
        lo + self.below((hi - lo) as u64 + 1) as i64
    }

    #[inline]
    pub fn usize_in(&mut self, lo: usize, hi: usize) -> usize {
        self.range(lo as i64, hi as i64) as usize
    }

    /// True with probability num/den.
    #[inline]
    pub fn chance(&mut self, num: u64, den: u64) -> bool {
        self.below(den) < num
    }

    #[inline]
    pub fn bool(&mut self) -> bool {
        self.next_u64() & 1 == 1
    }

    /// Uniform in [0, 1).
    #[inline]
    pub fn unit(&mut self) -> f64 {
        (self.next_u64() >> 11) as f64 / (1u64 << 53) as f64
    }

    /// Uniform in [lo, hi).
    #[inline]
    pub fn f64_in(&mut self, lo: f64, hi: f64) -> f64 {
        lo + (hi - lo) * self.unit()
    }

    /// Index drawn according to integer weights (weights may be 0; at least one must be > 0).
    pub fn weighted(&mut self, weights: &[u32]) -> usize {
        let total: u64 = weights.iter().map(|&w| w as u64).sum();
        debug_assert!(total > 0);
        let mut x = self.below(total);
        for (i, &w) in weights.iter().enumerate() {
            if x < w as u64 {
                return i;
            }
            x -= w as u64;
        }
        weights.len() - 1
    }

    pub fn pick<'a, T>(&mut self, xs: &'a [T]) -> &'a T {
        &xs[self.below(xs.len() as u64) as usize]
    }
}
