//! The allocator seam: a global allocator that forwards to `System` and, while the *current
//! thread* is armed, counts every alloc / realloc / dealloc.  The hook never allocates; worker
//! threads do not disturb each other (thread-local const-initialised cells).
//!
//! "Failing allocation" is modelled as *denial by recording*: returning null would abort the
//! process and lose the trace.

use std::alloc::{GlobalAlloc, Layout, System};
use std::cell::Cell;

pub struct CountingAlloc;

thread_local! {
    static ARMED: Cell<bool> = const { Cell::new(false) };
    static EVENTS: Cell<u64> = const { Cell::new(0) };
    static FIRST: Cell<(u8, usize)> = const { Cell::new((0, 0)) };
    static LIVE: Cell<i64> = const { Cell::new(0) };
    static ARMED_NET: Cell<i64> = const { Cell::new(0) };
}

#[inline]
fn record(kind: u8, size: usize) {
    let _ = ARMED.try_with(|a| {
        if a.get() {
            let _ = ARMED_NET.try_with(|n| n.set(n.get() + if kind == 3 { -(size as i64) } else { size as i64 }));
            let _ = EVENTS.try_with(|e| {
                if e.get() == 0 {
                    let _ = FIRST.try_with(|f| f.set((kind, size)));
                }
                e.set(e.get() + 1);
            });
        }
    });
}

unsafe impl GlobalAlloc for CountingAlloc {
    unsafe fn alloc(&self, layout: Layout) -> *mut u8 {
        record(1, layout.size());
        let _ = LIVE.try_with(|l| l.set(l.get() + layout.size() as i64));
        System.alloc(layout)
    }
    unsafe fn dealloc(&self, ptr: *mut u8, layout: Layout) {
        record(3, layout.size());
        let _ = LIVE.try_with(|l| l.set(l.get() - layout.size() as i64));
        System.dealloc(ptr, layout)
    }
    unsafe fn realloc(&self, ptr: *mut u8, layout: Layout, new_size: usize) -> *mut u8 {
        record(3, layout.size());
        record(2, new_size);
        let _ = LIVE.try_with(|l| l.set(l.get() + new_size as i64 - layout.size() as i64));
        System.realloc(ptr, layout, new_size)
    }
    unsafe fn alloc_zeroed(&self, layout: Layout) -> *mut u8 {
        record(1, layout.size());
        let _ = LIVE.try_with(|l| l.set(l.get() + layout.size() as i64));
        System.alloc_zeroed(layout)
    }
}

/// What the armed window saw.
#[derive(Clone, Copy, Debug, PartialEq, Eq)]
pub struct Seen {
    pub events: u64,
    /// 1 alloc, 2 realloc, 3 dealloc
    pub first_kind: u8,
    pub first_size: usize,
}

impl Seen {
    pub fn describe(&self) -> String {
        let k = match self.first_kind {
            1 => "alloc",
            2 => "realloc",
            3 => "dealloc",
            _ => "-",
        };
        format!("{} heap events, first: {} of {} bytes", self.events, k, self.first_size)
    }
}

/// Run `f` with the allocator armed on this thread.
#[inline]
pub fn armed<R>(f: impl FnOnce() -> R) -> (R, Seen) {
    EVENTS.with(|e| e.set(0));
    ARMED.with(|a| a.set(true));
    let r = f();
    ARMED.with(|a| a.set(false));
    let ev = EVENTS.with(|e| e.get());
    let (k, s) = FIRST.with(|f| f.get());
    (
        r,
        Seen {
            events: ev,
            first_kind: if ev == 0 { 0 } else { k },
            first_size: if ev == 0 { 0 } else { s },
        },
    )
}

/// Net bytes (allocated minus freed) inside armed windows on this thread since `reset_armed_net`.
pub fn armed_net_bytes() -> i64 {
    ARMED_NET.with(|n| n.get())
}
pub fn reset_armed_net() {
    ARMED_NET.with(|n| n.set(0));
}

/// Net bytes allocated by this thread so far (allocations minus frees made *by this thread*).
pub fn live_bytes() -> i64 {
    LIVE.with(|l| l.get())
}

/// True if the counting allocator is actually installed (self-check of the seam).
pub fn installed() -> bool {
    let (_, seen) = armed(|| {
        let v: Vec<u8> = Vec::with_capacity(32);
        std::hint::black_box(&v);
        drop(v);
    });
    seen.events >= 2
}
