//! Command line shared by the harness binaries.
//!
//!   <bin> list
//!   <bin> run <scenario> [--tier quick|thorough] [--seed N] [--runs N] [--threads N]
//!                        [--part FILE] [--known FILE] [--replays DIR]
//!   <bin> replay <file>
//!   <bin> hashes <scenario> [--seed N] [--runs N] [--threads N]     (determinism self-test helper)
//!
//! Exit codes: 0 property held on everything explored; 1 violation (a line
//! `VIOLATION property=<id> replay=<path>` is printed); 2 harness error.

use crate::batch::*;
use crate::case::{parse_replay, parse_replay_header, render_case, Case};
use crate::json::Json;
use crate::obs::Observer;
use std::collections::BTreeMap;
use std::path::PathBuf;

fn arg_val(args: &[String], name: &str) -> Option<String> {
    args.iter()
        .position(|a| a == name)
        .and_then(|i| args.get(i + 1).cloned())
}

fn find<'a>(scens: &'a [&'a dyn Scenario], name: &str) -> Option<&'a dyn Scenario> {
    scens.iter().copied().find(|s| s.name() == name)
}

fn read_known(path: Option<String>, property: &str) -> Vec<(String, String)> {
    // lines:  known: property=C06 invariant=<id> <free text>
    let mut out = Vec::new();
    let Some(path) = path else { return out };
    let Ok(text) = std::fs::read_to_string(&path) else {
        return out;
    };
    for line in text.lines() {
        let line = line.trim();
        if !line.starts_with("known:") {
            continue;
        }
        let mut prop = "";
        let mut inv = "";
        for tok in line.split_whitespace() {
            if let Some(p) = tok.strip_prefix("property=") {
                prop = p;
            }
            if let Some(i) = tok.strip_prefix("invariant=") {
                inv = i;
            }
        }
        if prop == property && !inv.is_empty() {
            out.push((inv.to_string(), line.to_string()));
        }
    }
    out
}

fn case_to_json(scen: &dyn Scenario, seed: u64, case: &Case) -> Json {
    let specs = scen.ops();
    let mut o = Json::obj();
    o.set("seed", Json::s(seed.to_string()));
    let mut cfg = Json::obj();
    for (n, v) in &case.cfg {
        cfg.set(n, Json::Int(*v));
    }
    o.set("cfg", cfg);
    let ops: Vec<Json> = case
        .ops
        .iter()
        .take(48)
        .map(|op| {
            let name = specs.get(op.k as usize).map(|s| s.name).unwrap_or("?");
            Json::s(format!("{} {} {} {}", name, op.a, op.b, op.c))
        })
        .collect();
    o.set("n_ops", Json::Int(case.ops.len() as i64));
    o.set("ops_first_48", Json::Arr(ops));
    o
}

pub fn main(scens: &[&dyn Scenario]) -> ! {
    install_panic_hook();
    let args: Vec<String> = std::env::args().skip(1).collect();
    let code = match args.first().map(|s| s.as_str()) {
        Some("list") => {
            for s in scens {
                println!("{} {}", s.property(), s.name());
            }
            0
        }
        Some("run") => cmd_run(scens, &args[1..]),
        Some("replay") => cmd_replay(scens, &args[1..]),
        Some("hashes") => cmd_hashes(scens, &args[1..]),
        Some("scan") => cmd_scan(scens, &args[1..]),
        Some("journal") => cmd_journal(scens, &args[1..]),
        Some("isolate") => cmd_isolate(scens, &args[1..]),
        _ => {
            eprintln!("usage: list | run <scenario> .. | replay <file> | hashes <scenario> ..");
            2
        }
    };
    std::process::exit(code)
}

fn cmd_hashes(scens: &[&dyn Scenario], args: &[String]) -> i32 {
    let Some(scen) = args.first().and_then(|n| find(scens, n)) else {
        eprintln!("HARNESS-ERROR unknown scenario");
        return 2;
    };
    let seed: u64 = arg_val(args, "--seed")
        .and_then(|s| s.parse().ok())
        .unwrap_or(1);
    let runs: u64 = arg_val(args, "--runs")
        .and_then(|s| s.parse().ok())
        .unwrap_or(4096);
    let threads: usize = arg_val(args, "--threads")
        .and_then(|s| s.parse().ok())
        .unwrap_or(1);
    let out = run_batch(
        scen,
        &BatchCfg {
            runs,
            threads,
            seed,
            known: scens
                .iter()
                .flat_map(|_| Vec::<String>::new())
                .collect::<Vec<_>>(),
            wall_cap_s: 3600.0,
            keep_hashes: runs,
            dedup_bits: 20,
        },
    );
    // a violation is fine here (sensitivity runs): determinism concerns the hashes before it
    for (i, h) in &out.first_hashes {
        println!("{} {:016x}", i, h);
    }
    match &out.violation {
        None => println!("combined {:016x} runs {}", out.combined, out.runs_done),
        Some(f) => println!("stopped at the first violation: run {} invariant {}", f.idx, f.v.invariant),
    }
    0
}

/// Child of `isolate`: executes its share of the batch on one thread, announcing every run index
/// before executing it, so that the supervisor knows which run killed the process.
fn cmd_scan(scens: &[&dyn Scenario], args: &[String]) -> i32 {
    use std::io::Write;
    let Some(scen) = args.first().and_then(|n| find(scens, n)) else { return 2 };
    let seed: u64 = arg_val(args, "--seed").and_then(|s| s.parse().ok()).unwrap_or(1);
    let runs: u64 = arg_val(args, "--runs").and_then(|s| s.parse().ok()).unwrap_or(1000);
    let stride: u64 = arg_val(args, "--stride").and_then(|s| s.parse().ok()).unwrap_or(1);
    let offset: u64 = arg_val(args, "--offset").and_then(|s| s.parse().ok()).unwrap_or(0);
    let out = std::io::stdout();
    let mut obs = Observer::new();
    let mut i = offset;
    while i < runs {
        {
            let mut l = out.lock();
            let _ = writeln!(l, "{}", i);
            let _ = l.flush();
        }
        let _ = exec_gen(scen, run_seed(seed, scen, i), &mut obs);
        i += stride;
    }
    println!("done");
    0
}

/// Child of `isolate`: one generated run with the crash journal switched on.
fn cmd_journal(scens: &[&dyn Scenario], args: &[String]) -> i32 {
    let Some(scen) = args.first().and_then(|n| find(scens, n)) else { return 2 };
    let seed: u64 = arg_val(args, "--seed").and_then(|s| s.parse().ok()).unwrap_or(1);
    let index: u64 = arg_val(args, "--index").and_then(|s| s.parse().ok()).unwrap_or(0);
    let Some(out) = arg_val(args, "--out") else { return 2 };
    let Ok(f) = std::fs::File::create(&out) else { return 2 };
    VERBOSE_PANICS.store(true, std::sync::atomic::Ordering::Relaxed);
    let mut src = crate::case::Source::gen(run_seed(seed, scen, index)).with_journal(f);
    let mut obs = Observer::new();
    obs.begin_run();
    let _alive = crate::batch::watchdog::Guard::enter();
    let r = std::panic::catch_unwind(std::panic::AssertUnwindSafe(|| scen.run(&mut src, &mut obs)));
    match r {
        Ok(Ok(())) => println!("JOURNAL-OK"),
        Ok(Err(v)) => println!("JOURNAL-VIOLATION {}", v.invariant),
        Err(_) => println!("JOURNAL-PANIC"),
    }
    0
}

fn abort_signature(stderr: &str, status: &std::process::ExitStatus) -> Option<String> {
    if status.code().is_some() {
        return None; // exited normally
    }
    // a run that never comes back shows either as the watchdog's abort or — when the endless loop also
    // allocates — as an allocation failure under the children's address-space limit (or a kill by the
    // kernel): one violation class, one signature
    if stderr.contains("NONUNWIND-PANIC hang:") || stderr.contains("memory allocation of") || format!("{}", status).contains("signal: 9") {
        return Some("abort:runaway:_a_simulated_run_never_came_back_(endless_loop_or_unbounded_memory_growth_in_library_code)".to_string());
    }
    let msg = stderr
        .lines()
        .filter(|l| l.starts_with("NONUNWIND-PANIC "))
        .last()
        .map(|l| l["NONUNWIND-PANIC ".len()..].to_string())
        .unwrap_or_else(|| format!("{}", status));
    let mut sig: String = msg.chars().take(110).collect();
    sig = sig.replace(' ', "_");
    Some(format!("abort:{}", sig))
}

/// Supervisor for batches in which some run takes the whole process down (abort from a violated
/// unsafe precondition, segfault): never executes scenario code itself.  Finds the first aborting
/// run with single-threaded `scan` children, recovers its schedule from the crash journal,
/// minimises it with `replay` children and reports it like any other violation.
/// A child of the isolating supervisor: same executable, address space capped (a runaway run must
/// fail fast instead of exhausting the machine's memory).
fn capped_child(exe: &std::path::Path) -> std::process::Command {
    let mut c = std::process::Command::new("sh");
    c.arg("-c").arg("ulimit -v 6000000 2>/dev/null; exec \"$0\" \"$@\"").arg(exe);
    c
}

fn cmd_isolate(scens: &[&dyn Scenario], args: &[String]) -> i32 {
    use std::process::Stdio;
    let Some(scen) = args.first().and_then(|n| find(scens, n)) else {
        eprintln!("HARNESS-ERROR unknown scenario");
        return 2;
    };
    let tier = arg_val(args, "--tier").unwrap_or_else(|| "quick".into());
    let seed: u64 = arg_val(args, "--seed").and_then(|s| s.parse().ok()).unwrap_or(1);
    let runs_div: u64 = arg_val(args, "--runs-div").and_then(|s| s.parse().ok()).unwrap_or(1).max(1);
    let runs: u64 = arg_val(args, "--runs").and_then(|s| s.parse().ok()).unwrap_or_else(|| (scen.runs(&tier) / runs_div).max(1));
    let workers: u64 = arg_val(args, "--threads").and_then(|s| s.parse().ok()).unwrap_or(16);
    let replays = PathBuf::from(arg_val(args, "--replays").unwrap_or_else(|| "replays".into()));
    let _ = std::fs::create_dir_all(&replays);
    let exe = std::env::current_exe().unwrap();
    // 1. which run aborts?
    let children: Vec<_> = (0..workers)
        .map(|t| {
            capped_child(&exe)
                .args(["scan", scen.name(), "--seed", &seed.to_string(), "--runs", &runs.to_string()])
                .args(["--stride", &workers.to_string(), "--offset", &t.to_string()])
                .stdout(Stdio::piped())
                .stderr(Stdio::null())
                .spawn()
        })
        .collect();
    let mut first_abort: Option<u64> = None;
    let mut scanned = 0u64;
    for c in children {
        let Ok(c) = c else {
            println!("HARNESS-ERROR cannot spawn scan child");
            return 2;
        };
        let Ok(o) = c.wait_with_output() else { continue };
        let so = String::from_utf8_lossy(&o.stdout);
        let lines: Vec<&str> = so.lines().collect();
        scanned += lines.len() as u64;
        if lines.last() != Some(&"done") {
            if let Some(i) = lines.last().and_then(|l| l.parse::<u64>().ok()) {
                first_abort = Some(first_abort.map_or(i, |f| f.min(i)));
            }
        }
    }
    let Some(idx) = first_abort else {
        println!("HARNESS-ERROR the batch died abnormally but no single run reproduces it ({} runs scanned)", scanned);
        return 2;
    };
    // 2. its schedule, from the crash journal
    let jpath = replays.join(format!("{}-{}-{}.journal", scen.property(), scen.name(), idx));
    let out = capped_child(&exe)
        .args(["journal", scen.name(), "--seed", &seed.to_string(), "--index", &idx.to_string(), "--out"])
        .arg(&jpath)
        .output();
    let Ok(out) = out else {
        println!("HARNESS-ERROR cannot spawn journal child");
        return 2;
    };
    let Some(sig) = abort_signature(&String::from_utf8_lossy(&out.stderr), &out.status) else {
        println!("HARNESS-ERROR run {} aborted in the batch but not on its own", idx);
        return 2;
    };
    let case = crate::case::parse_journal(&std::fs::read_to_string(&jpath).unwrap_or_default());
    let _ = std::fs::remove_file(&jpath);
    let rseed = run_seed(seed, scen, idx);
    // 3. minimise with child processes
    let tmp = replays.join(format!("{}-{}-{}.candidate", scen.property(), scen.name(), rseed));
    // a hang is recognised by the run watchdog: candidate schedules get a short limit (a run normally
    // takes micro- to milliseconds) and fewer attempts, or minimising would cost minutes per candidate
    let hang = sig.contains("runaway:");
    let short = if hang { "5" } else { "60" };
    let mut test = |c: &Case| -> Option<Case> {
        let text = render_case(scen.property(), scen.name(), rseed, &sig, scen.ops(), c);
        std::fs::write(&tmp, text).ok()?;
        let o = capped_child(&exe).arg("replay").arg(&tmp).env("VERIF_RUN_TIMEOUT_S", short).output().ok()?;
        match abort_signature(&String::from_utf8_lossy(&o.stderr), &o.status) {
            Some(s) if s == sig => Some(c.clone()),
            _ => None,
        }
    };
    let (min_case, execs) = crate::batch::minimise_with(scen.ops(), &case, if hang { 60 } else { 400 }, &mut test);
    let _ = std::fs::remove_file(&tmp);
    let path = replays.join(format!("{}-{}-{}.replay", scen.property(), scen.name(), rseed));
    let text = render_case(scen.property(), scen.name(), rseed, &sig, scen.ops(), &min_case);
    if std::fs::write(&path, &text).is_err() {
        println!("HARNESS-ERROR cannot write replay");
        return 2;
    }
    // 4. the minimised file must abort the same way in a fresh process
    let o = capped_child(&exe).arg("replay").arg(&path).env("VERIF_RUN_TIMEOUT_S", short).output();
    let same = o
        .ok()
        .and_then(|o| abort_signature(&String::from_utf8_lossy(&o.stderr), &o.status))
        .map(|s| s == sig)
        .unwrap_or(false);
    if !same {
        println!("HARNESS-ERROR replay {} did not abort the same way in a fresh process", path.display());
        return 2;
    }
    println!(
        "violation: invariant={} run={} seed={} step={} :: the process was killed while executing library code: {}",
        sig,
        idx,
        rseed,
        case.ops.len(),
        sig
    );
    println!(
        "minimised from {} to {} operations in {} child executions; replay aborts identically in a fresh process",
        case.ops.len(),
        min_case.ops.len(),
        execs
    );
    println!(
        "VIOLATION property={} replay={}",
        scen.property(),
        std::fs::canonicalize(&path).unwrap_or(path.clone()).display()
    );
    println!("ISOLATED first_aborting_run={}", idx);
    1
}

fn cmd_replay(scens: &[&dyn Scenario], args: &[String]) -> i32 {
    VERBOSE_PANICS.store(true, std::sync::atomic::Ordering::Relaxed);
    let Some(path) = args.first() else {
        eprintln!("HARNESS-ERROR replay needs a file");
        return 2;
    };
    let text = match std::fs::read_to_string(path) {
        Ok(t) => t,
        Err(e) => {
            eprintln!("HARNESS-ERROR cannot read {}: {}", path, e);
            return 2;
        }
    };
    let (_, sname) = match parse_replay_header(&text) {
        Ok(x) => x,
        Err(e) => {
            eprintln!("HARNESS-ERROR {}", e);
            return 2;
        }
    };
    let Some(scen) = find(scens, &sname) else {
        eprintln!("HARNESS-ERROR scenario {} is not in this binary", sname);
        return 3;
    };
    let parsed = match parse_replay(&text, scen.ops()) {
        Ok(p) => p,
        Err(e) => {
            eprintln!("HARNESS-ERROR {}", e);
            return 2;
        }
    };
    let mut obs = Observer::new();
    match exec_case(scen, &parsed.case, &mut obs) {
        (Outcome::Ok, _) => {
            println!(
                "REPLAY-OK property={} scenario={} ops={} (no violation)",
                scen.property(),
                scen.name(),
                parsed.case.ops.len()
            );
            0
        }
        (Outcome::Violation(v), _) => {
            println!(
                "REPLAY-VIOLATION property={} scenario={} invariant={} step={} msg={}",
                scen.property(),
                scen.name(),
                v.invariant,
                v.step,
                v.msg
            );
            println!("VIOLATION property={} replay={}", scen.property(), path);
            1
        }
        (Outcome::HarnessPanic(m), _) => {
            eprintln!("HARNESS-ERROR panic in harness code: {}", m);
            2
        }
    }
}

fn cmd_run(scens: &[&dyn Scenario], args: &[String]) -> i32 {
    let Some(scen) = args.first().and_then(|n| find(scens, n)) else {
        eprintln!("HARNESS-ERROR unknown scenario {:?}", args.first());
        return 2;
    };
    let tier = arg_val(args, "--tier").unwrap_or_else(|| "quick".into());
    let seed: u64 = arg_val(args, "--seed")
        .and_then(|s| s.parse().ok())
        .unwrap_or(1);
    let runs_div: u64 = arg_val(args, "--runs-div").and_then(|s| s.parse().ok()).unwrap_or(1).max(1);
    let runs: u64 = arg_val(args, "--runs")
        .and_then(|s| s.parse().ok())
        .unwrap_or_else(|| (scen.runs(&tier) / runs_div).max(1));
    let threads: usize = arg_val(args, "--threads")
        .and_then(|s| s.parse().ok())
        .unwrap_or_else(|| {
            std::thread::available_parallelism()
                .map(|n| n.get())
                .unwrap_or(4)
        });
    let replays = PathBuf::from(arg_val(args, "--replays").unwrap_or_else(|| "replays".into()));
    let known_entries = read_known(arg_val(args, "--known"), scen.property());
    let known: Vec<String> = known_entries.iter().map(|(i, _)| i.clone()).collect();
    let wall_cap_s: f64 = arg_val(args, "--wall-cap")
        .and_then(|s| s.parse().ok())
        .unwrap_or(if tier == "quick" { 120.0 } else { 1500.0 });

    println!(
        "VERIF_SEED={} property={} scenario={} tier={} runs={} threads={}",
        seed,
        scen.property(),
        scen.name(),
        tier,
        runs,
        threads
    );

    let bcfg = BatchCfg {
        runs,
        threads,
        seed,
        known: known.clone(),
        wall_cap_s,
        keep_hashes: 2048,
        dedup_bits: arg_val(args, "--dedup-bits")
            .and_then(|s| s.parse().ok())
            .unwrap_or(if tier == "quick" { 27 } else { 31 }),
    };
    let out = run_batch(scen, &bcfg);

    if let Some(h) = &out.harness_error {
        println!("HARNESS-ERROR {}", h);
        return 2;
    }

    // Determinism spot check: the first runs again, on one thread, must hash identically.
    let mut det_checked = 0u64;
    let mut det_ok = true;
    {
        let mut obs = Observer::new();
        let limit = out
            .violation
            .as_ref()
            .map(|f| f.idx)
            .unwrap_or(u64::MAX)
            .min(512);
        for (i, h) in out.first_hashes.iter().filter(|(i, _)| *i < limit) {
            let (_o, _c) = exec_gen(scen, run_seed(seed, scen, *i), &mut obs);
            det_checked += 1;
            if obs.hash != *h {
                det_ok = false;
                println!(
                    "HARNESS-ERROR nondeterminism: run {} hashed {:016x} on a worker and {:016x} on replay",
                    i, h, obs.hash
                );
                break;
            }
        }
    }
    if !det_ok {
        return 2;
    }

    let mut exit = 0;
    let mut violation_json = Json::Null;
    if let Some(f) = &out.violation {
        let (min_case, execs) = minimise(scen, &f.case, &f.v.invariant, 6000);
        let _ = std::fs::create_dir_all(&replays);
        let path = replays.join(format!(
            "{}-{}-{}.replay",
            scen.property(),
            scen.name(),
            f.seed
        ));
        let text = render_case(
            scen.property(),
            scen.name(),
            f.seed,
            &f.v.invariant,
            scen.ops(),
            &min_case,
        );
        if let Err(e) = std::fs::write(&path, &text) {
            println!("HARNESS-ERROR cannot write replay {}: {}", path.display(), e);
            return 2;
        }
        // replay in a fresh process: it must fail the same way
        let reproduced = if args.iter().any(|a| a == "--no-fresh-replay") {
            // (under Miri no process can be spawned) re-execute the parsed file in-process
            let parsed = parse_replay(&text, scen.ops()).ok();
            let mut o = Observer::new();
            match parsed.map(|p| exec_case(scen, &p.case, &mut o).0) {
                Some(Outcome::Violation(v)) => v.invariant == f.v.invariant,
                _ => false,
            }
        } else {
            let exe = std::env::current_exe().unwrap();
            let res = std::process::Command::new(exe)
                .arg("replay")
                .arg(&path)
                .output();
            match res {
                Ok(o) => {
                    let so = String::from_utf8_lossy(&o.stdout).to_string();
                    o.status.code() == Some(1)
                        && so.contains(&format!("invariant={} ", f.v.invariant))
                }
                Err(_) => false,
            }
        };
        if !reproduced {
            println!(
                "HARNESS-ERROR replay {} did not reproduce invariant {} in a fresh process",
                path.display(),
                f.v.invariant
            );
            return 2;
        }
        println!(
            "violation: invariant={} run={} seed={} step={} :: {}",
            f.v.invariant, f.idx, f.seed, f.v.step, f.v.msg
        );
        println!(
            "minimised from {} to {} operations in {} executions; replay reproduces in a fresh process",
            f.case.ops.len(),
            min_case.ops.len(),
            execs
        );
        println!(
            "VIOLATION property={} replay={}",
            scen.property(),
            std::fs::canonicalize(&path).unwrap_or(path.clone()).display()
        );
        let mut vj = Json::obj();
        vj.set("invariant", Json::s(f.v.invariant.clone()));
        vj.set("msg", Json::s(f.v.msg.clone()));
        vj.set("run_index", Json::Int(f.idx as i64));
        vj.set("seed", Json::s(f.seed.to_string()));
        vj.set("replay", Json::s(path.display().to_string()));
        vj.set("ops_before_minimisation", Json::Int(f.case.ops.len() as i64));
        vj.set("ops_after_minimisation", Json::Int(min_case.ops.len() as i64));
        violation_json = vj;
        exit = 1;
    }

    for (inv, hit) in &out.known_hits {
        let desc = known_entries
            .iter()
            .find(|(i, _)| i == inv)
            .map(|(_, l)| l.as_str())
            .unwrap_or("");
        println!(
            "KNOWN-FINDING: property={} invariant={} hits={} first_run={} :: {} [{}]",
            scen.property(),
            inv,
            hit.count,
            hit.first_idx,
            hit.msg,
            desc
        );
    }

    // evidence part
    let mut j = Json::obj();
    j.set("property_id", Json::s(scen.property()));
    j.set("scenario", Json::s(scen.name()));
    j.set("tier", Json::s(tier.clone()));
    j.set("seed", Json::Int(seed as i64));
    j.set("threads", Json::Int(threads as i64));
    j.set("evaluations", Json::Int(out.runs_done as i64));
    j.set("nontrivial_runs", Json::Int(out.nontrivial as i64));
    j.set("distinct_nontrivial", Json::Int(out.distinct_nontrivial as i64));
    j.set("rule", Json::s(scen.rule()));
    j.set("simulated_steps", Json::Int(out.obs.steps_total as i64));
    j.set("skipped_ops", Json::Int(out.obs.skipped_total as i64));
    j.set("wall_s", Json::Num(out.wall_s));
    let rph = if out.wall_s > 0.0 {
        out.runs_done as f64 / out.wall_s * 3600.0
    } else {
        0.0
    };
    j.set("runs_per_hour", Json::Num(rph.round()));
    j.set("truncated_by_wall_cap", Json::Bool(out.truncated));
    let mut faults = Json::obj();
    for (i, n) in scen.faults().iter().enumerate() {
        faults.set(n, Json::Int(out.obs.faults[i] as i64));
    }
    j.set("faults_fired", faults);
    let mut probes = Json::obj();
    for (i, n) in scen.probes().iter().enumerate() {
        probes.set(n, Json::Int(out.obs.probes[i] as i64));
    }
    j.set("reach_probes", probes);
    let mut ops = Json::obj();
    for (i, s) in scen.ops().iter().enumerate() {
        ops.set(s.name, Json::Int(out.obs.opkinds[i] as i64));
    }
    j.set("operations_executed", ops);
    j.set("states", Json::Int(out.obs.states.len() as i64));
    j.set("transitions", Json::Int(out.obs.transitions.len() as i64));
    j.set(
        "samples",
        Json::Arr(
            out.samples
                .iter()
                .take(3)
                .map(|(i, c)| case_to_json(scen, run_seed(seed, scen, *i), c))
                .collect(),
        ),
    );
    let mut det = Json::obj();
    det.set("runs_rechecked_single_thread", Json::Int(det_checked as i64));
    det.set("identical", Json::Bool(det_ok));
    det.set("batch_hash", Json::s(format!("{:016x}", out.combined)));
    j.set("determinism_spot_check", det);
    j.set("real_components", Json::strs(scen.real()));
    j.set("stub_components", Json::strs(scen.stubs()));
    j.set("assumptions", Json::strs(scen.assumptions()));
    j.set("violations", Json::Int(if exit == 1 { 1 } else { 0 }));
    j.set("violation", violation_json);
    let mut kh = Json::obj();
    let mut khm: BTreeMap<String, i64> = BTreeMap::new();
    for (inv, hit) in &out.known_hits {
        khm.insert(inv.clone(), hit.count as i64);
    }
    for (k, v) in khm {
        kh.set(&k, Json::Int(v));
    }
    j.set("known_finding_hits", kh);
    if let Some(p) = arg_val(args, "--part") {
        if let Some(dir) = PathBuf::from(&p).parent() {
            let _ = std::fs::create_dir_all(dir);
        }
        if let Err(e) = std::fs::write(&p, j.render()) {
            println!("HARNESS-ERROR cannot write evidence part {}: {}", p, e);
            return 2;
        }
    }
    println!(
        "done: runs={} nontrivial={} distinct_nontrivial={} steps={} states={} transitions={} wall={:.2}s exit={}",
        out.runs_done,
        out.nontrivial,
        out.distinct_nontrivial,
        out.obs.steps_total,
        out.obs.states.len(),
        out.obs.transitions.len(),
        out.wall_s,
        exit
    );
    exit
}
