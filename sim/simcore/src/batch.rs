//! Batch driver: many seeded runs on worker threads, results independent of the worker count;
//! execution of recorded cases; minimisation.

use crate::case::{Case, Op, OpSpec, Source};
use crate::obs::{Observer, Violation};
use crate::rng::{fnv, mix};
use std::cell::RefCell;
use std::collections::BTreeMap;
use std::panic::{self, AssertUnwindSafe};
use std::sync::atomic::{AtomicU64, Ordering};
use std::sync::Mutex;
use std::time::Instant;

pub trait Scenario: Sync {
    /// Scenario name (`bus`, `fork`, ...).
    fn name(&self) -> &'static str;
    /// Property id this scenario decides (`C13`).
    fn property(&self) -> &'static str;
    fn ops(&self) -> &'static [OpSpec];
    /// Names of the fault kinds the scheduler can inject, indexed as passed to `Observer::fault`.
    fn faults(&self) -> &'static [&'static str];
    /// Names of reach probes, indexed as passed to `Observer::probe`.
    fn probes(&self) -> &'static [&'static str];
    /// How cases are generated and what makes one non-trivial.
    fn rule(&self) -> &'static str;
    fn real(&self) -> &'static [&'static str];
    fn stubs(&self) -> &'static [&'static str];
    fn assumptions(&self) -> &'static [&'static str];
    /// Number of runs for a tier.
    fn runs(&self, tier: &str) -> u64;
    /// One simulated execution.
    fn run(&self, src: &mut Source, obs: &mut Observer) -> Result<(), Violation>;
}

/// Liveness watchdog: every simulated run must return.  A run that keeps a worker busy for longer
/// than the limit (an operation of the library under test never came back: an endless loop, a
/// blocked wait) takes the process down with a recognisable message; the supervising layer
/// (`bin/check` -> `isolate`) then finds the run, recovers its schedule from the crash journal and
/// reports it as a violation with a replay file, exactly as for aborts.  Limit in seconds:
/// `VERIF_RUN_TIMEOUT_S` (default 60; 0 disables; disabled under Miri, where one run may take minutes).
pub mod watchdog {
    use std::sync::atomic::{AtomicU64, AtomicUsize, Ordering};
    use std::sync::Once;
    use std::time::{Duration, Instant};

    const SLOTS: usize = 256;
    static STARTED: [AtomicU64; SLOTS] = [const { AtomicU64::new(0) }; SLOTS];
    static NEXT_SLOT: AtomicUsize = AtomicUsize::new(0);
    static INIT: Once = Once::new();
    thread_local! {
        static MY_SLOT: usize = NEXT_SLOT.fetch_add(1, Ordering::Relaxed) % SLOTS;
    }

    fn limit_s() -> u64 {
        if cfg!(miri) {
            return 0;
        }
        std::env::var("VERIF_RUN_TIMEOUT_S").ok().and_then(|v| v.parse().ok()).unwrap_or(60)
    }

    fn now_ms(t0: Instant) -> u64 {
        t0.elapsed().as_millis() as u64 + 1
    }

    pub struct Guard(usize);
    impl Guard {
        pub fn enter() -> Guard {
            static T0: std::sync::OnceLock<Instant> = std::sync::OnceLock::new();
            let t0 = *T0.get_or_init(Instant::now);
            INIT.call_once(|| {
                let limit = limit_s();
                if limit == 0 {
                    return;
                }
                std::thread::spawn(move || loop {
                    std::thread::sleep(Duration::from_millis(200));
                    let now = now_ms(t0);
                    for s in STARTED.iter() {
                        let st = s.load(Ordering::Relaxed);
                        if st != 0 && now.saturating_sub(st) > limit * 1000 {
                            // (the text is the violation's signature: it must not depend on the limit)
                            eprintln!("NONUNWIND-PANIC hang: a simulated run did not return within the run time limit (an operation of the library under test never came back)");
                            let _ = limit;
                            std::process::abort();
                        }
                    }
                });
            });
            let slot = MY_SLOT.with(|s| *s);
            STARTED[slot].store(now_ms(t0), Ordering::Relaxed);
            Guard(slot)
        }
    }
    impl Drop for Guard {
        fn drop(&mut self) {
            STARTED[self.0].store(0, Ordering::Relaxed);
        }
    }
}

thread_local! {
    static LAST_PANIC: RefCell<Option<(String, String)>> = const { RefCell::new(None) };
}

/// Set by the single-run child commands (`journal`, `replay`): report every panic on stderr.
pub static VERBOSE_PANICS: std::sync::atomic::AtomicBool = std::sync::atomic::AtomicBool::new(false);

/// Install the panic hook: silent, remembers message and location per thread.
pub fn install_panic_hook() {
    panic::set_hook(Box::new(|info| {
        let loc = info
            .location()
            .map(|l| format!("{}:{}", l.file(), l.line()))
            .unwrap_or_else(|| "?".into());
        let msg = if let Some(s) = info.payload().downcast_ref::<&str>() {
            (*s).to_string()
        } else if let Some(s) = info.payload().downcast_ref::<String>() {
            s.clone()
        } else {
            "<non-string panic>".to_string()
        };
        // (payloads that are not strings are the harness's own injected crashes, which a scenario catches)
        if (VERBOSE_PANICS.load(Ordering::Relaxed) && msg != "<non-string panic>") || msg.starts_with("unsafe precondition") {
            // the process is about to abort (e.g. a violated unsafe precondition under debug
            // assertions): leave the reason behind for the supervising process
            eprintln!("NONUNWIND-PANIC {} at {}", msg.replace('\n', " "), short_loc(&loc));
        }
        LAST_PANIC.with(|p| *p.borrow_mut() = Some((loc, msg)));
    }));
}

fn short_loc(loc: &str) -> String {
    // keep the last three path components so the id is stable across checkouts
    let parts: Vec<&str> = loc.split('/').collect();
    let n = parts.len();
    parts[n.saturating_sub(3)..].join("/")
}

pub enum Outcome {
    Ok,
    Violation(Violation),
    /// A panic raised from harness code: a bug in the machinery, never reported as a violation.
    HarnessPanic(String),
}

fn classify_panic(obs: &Observer) -> Outcome {
    let (loc, msg) = LAST_PANIC
        .with(|p| p.borrow_mut().take())
        .unwrap_or_else(|| ("?".into(), "?".into()));
    if loc.contains("/verif/") || loc.contains("simcore") || loc.contains("/dsim") {
        Outcome::HarnessPanic(format!("{} at {}", msg, loc))
    } else {
        Outcome::Violation(Violation {
            invariant: format!("panic@{}", short_loc(&loc)),
            step: obs.step,
            msg: format!("library code panicked during a legal workload: {} at {}", msg, loc),
        })
    }
}

/// Execute one generated run.
pub fn exec_gen(scen: &dyn Scenario, seed: u64, obs: &mut Observer) -> (Outcome, Case) {
    let mut src = Source::gen(seed);
    obs.begin_run();
    let _alive = watchdog::Guard::enter();
    let r = panic::catch_unwind(AssertUnwindSafe(|| scen.run(&mut src, obs)));
    let out = match r {
        Ok(Ok(())) => Outcome::Ok,
        Ok(Err(v)) => Outcome::Violation(v),
        Err(_) => classify_panic(obs),
    };
    (out, src.into_effective())
}

/// Execute a recorded case (no PRNG involved).
pub fn exec_case(scen: &dyn Scenario, case: &Case, obs: &mut Observer) -> (Outcome, Case) {
    let mut src = Source::replay(case.clone());
    obs.begin_run();
    let _alive = watchdog::Guard::enter();
    let r = panic::catch_unwind(AssertUnwindSafe(|| scen.run(&mut src, obs)));
    let out = match r {
        Ok(Ok(())) => Outcome::Ok,
        Ok(Err(v)) => Outcome::Violation(v),
        Err(_) => classify_panic(obs),
    };
    (out, src.into_effective())
}

pub struct Found {
    pub idx: u64,
    pub seed: u64,
    pub case: Case,
    pub v: Violation,
}

pub struct KnownHit {
    pub count: u64,
    pub first_idx: u64,
    pub msg: String,
}

pub struct BatchOut {
    pub runs_done: u64,
    pub nontrivial: u64,
    pub distinct_nontrivial: u64,
    pub obs: Observer,
    pub first_hashes: Vec<(u64, u64)>,
    pub combined: u64,
    pub violation: Option<Found>,
    pub harness_error: Option<String>,
    pub known_hits: BTreeMap<String, KnownHit>,
    pub samples: Vec<(u64, Case)>,
    pub wall_s: f64,
    pub truncated: bool,
}

pub struct BatchCfg {
    pub runs: u64,
    pub threads: usize,
    pub seed: u64,
    /// invariant ids (for this scenario's property) listed as known findings
    pub known: Vec<String>,
    pub wall_cap_s: f64,
    pub keep_hashes: u64,
    pub dedup_bits: u32,
}

pub fn run_seed(batch_seed: u64, scen: &dyn Scenario, idx: u64) -> u64 {
    mix(&[batch_seed, fnv(scen.name().as_bytes()), idx])
}

pub fn run_batch(scen: &dyn Scenario, cfg: &BatchCfg) -> BatchOut {
    let t0 = Instant::now();
    let threads = cfg.threads.max(1);
    let stop_at = AtomicU64::new(u64::MAX);
    let words = 1usize << (cfg.dedup_bits.saturating_sub(6));
    let dedup: Vec<AtomicU64> = (0..words).map(|_| AtomicU64::new(0)).collect();
    let mask = (1u64 << cfg.dedup_bits) - 1;
    let truncated = AtomicU64::new(0);

    struct ThreadOut {
        obs: Observer,
        runs: u64,
        nontrivial: u64,
        distinct: u64,
        combined: u64,
        hashes: Vec<(u64, u64)>,
        found: Option<Found>,
        harness: Option<String>,
        known: BTreeMap<String, KnownHit>,
        samples: Vec<(u64, Case)>,
    }
    let results: Mutex<Vec<ThreadOut>> = Mutex::new(Vec::new());

    std::thread::scope(|s| {
        for t in 0..threads {
            let stop_at = &stop_at;
            let dedup = &dedup;
            let results = &results;
            let truncated = &truncated;
            s.spawn(move || {
                let mut out = ThreadOut {
                    obs: Observer::new(),
                    runs: 0,
                    nontrivial: 0,
                    distinct: 0,
                    combined: 0,
                    hashes: Vec::new(),
                    found: None,
                    harness: None,
                    known: BTreeMap::new(),
                    samples: Vec::new(),
                };
                let mut i = t as u64;
                while i < cfg.runs {
                    if i >= stop_at.load(Ordering::Relaxed) {
                        break;
                    }
                    if out.runs % 1024 == 0 && t0.elapsed().as_secs_f64() > cfg.wall_cap_s {
                        truncated.store(1, Ordering::Relaxed);
                        break;
                    }
                    let seed = run_seed(cfg.seed, scen, i);
                    let (outcome, case) = exec_gen(scen, seed, &mut out.obs);
                    out.runs += 1;
                    let h = out.obs.hash;
                    out.combined = out.combined.wrapping_add(mix(&[i, h]));
                    if i < cfg.keep_hashes {
                        out.hashes.push((i, h));
                    }
                    if i < 4 {
                        out.samples.push((i, case.clone()));
                    }
                    if out.obs.nontrivial() {
                        out.nontrivial += 1;
                        let bit = mix(&[h, 0x5eed]) & mask;
                        let w = (bit >> 6) as usize;
                        let b = 1u64 << (bit & 63);
                        let prev = dedup[w].fetch_or(b, Ordering::Relaxed);
                        if prev & b == 0 {
                            out.distinct += 1;
                        }
                    }
                    match outcome {
                        Outcome::Ok => {}
                        Outcome::HarnessPanic(m) => {
                            out.harness = Some(format!("run {} seed {}: {}", i, seed, m));
                            stop_at.fetch_min(i, Ordering::Relaxed);
                            break;
                        }
                        Outcome::Violation(v) => {
                            if cfg.known.iter().any(|k| *k == v.invariant) {
                                let e = out.known.entry(v.invariant.clone()).or_insert(KnownHit {
                                    count: 0,
                                    first_idx: i,
                                    msg: v.msg.clone(),
                                });
                                e.count += 1;
                            } else {
                                stop_at.fetch_min(i, Ordering::Relaxed);
                                out.found = Some(Found {
                                    idx: i,
                                    seed,
                                    case,
                                    v,
                                });
                                break;
                            }
                        }
                    }
                    i += threads as u64;
                }
                results.lock().unwrap().push(out);
            });
        }
    });

    let mut outs = results.into_inner().unwrap();
    let mut obs = Observer::new();
    let mut b = BatchOut {
        runs_done: 0,
        nontrivial: 0,
        distinct_nontrivial: 0,
        obs: Observer::new(),
        first_hashes: Vec::new(),
        combined: 0,
        violation: None,
        harness_error: None,
        known_hits: BTreeMap::new(),
        samples: Vec::new(),
        wall_s: 0.0,
        truncated: truncated.load(Ordering::Relaxed) != 0,
    };
    for o in outs.iter_mut() {
        obs.merge(&o.obs);
        b.runs_done += o.runs;
        b.nontrivial += o.nontrivial;
        b.distinct_nontrivial += o.distinct;
        b.combined = b.combined.wrapping_add(o.combined);
        b.first_hashes.append(&mut o.hashes);
        b.samples.append(&mut o.samples);
        for (k, v) in std::mem::take(&mut o.known) {
            let e = b.known_hits.entry(k).or_insert(KnownHit {
                count: 0,
                first_idx: v.first_idx,
                msg: v.msg.clone(),
            });
            e.count += v.count;
            if v.first_idx < e.first_idx {
                e.first_idx = v.first_idx;
                e.msg = v.msg;
            }
        }
        if let Some(h) = o.harness.take() {
            b.harness_error = Some(h);
        }
        if let Some(f) = o.found.take() {
            match &b.violation {
                Some(cur) if cur.idx <= f.idx => {}
                _ => b.violation = Some(f),
            }
        }
    }
    b.first_hashes.sort();
    if let Some(f) = &b.violation {
        // workers may have run a few indices beyond the first violation before noticing it
        let stop = f.idx;
        b.first_hashes.retain(|(i, _)| *i < stop);
    }
    b.samples.sort_by_key(|(i, _)| *i);
    b.obs = obs;
    b.wall_s = t0.elapsed().as_secs_f64();
    b
}

/// Minimise a failing case: drop chunks of operations, then single operations, then shrink
/// configuration values and integer arguments — keeping a candidate only if it still breaks the
/// *same* invariant.  Cases are executed through the scenario, which skips operations that are
/// illegal in the state they meet, so every candidate is a legal schedule.
pub fn minimise(scen: &dyn Scenario, case: &Case, inv: &str, budget: usize) -> (Case, usize) {
    let mut obs = Observer::new();
    let mut test = |c: &Case| -> Option<Case> {
        match exec_case(scen, c, &mut obs) {
            (Outcome::Violation(v), eff) if v.invariant == inv => Some(eff),
            _ => None,
        }
    };
    minimise_with(scen.ops(), case, budget, &mut test)
}

/// The minimiser proper, over any "does this candidate still fail the same way (and what was
/// really executed)" test — in-process execution, or a child process for runs that abort.
pub fn minimise_with(
    specs: &[OpSpec],
    case: &Case,
    budget: usize,
    test: &mut dyn FnMut(&Case) -> Option<Case>,
) -> (Case, usize) {
    let mut execs = 0usize;
    let mut fails = |c: &Case, execs: &mut usize| -> Option<Case> {
        *execs += 1;
        test(c)
    };
    let mut cur = match fails(case, &mut execs) {
        Some(eff) => eff,
        None => return (case.clone(), execs),
    };
    loop {
        let before = (cur.ops.len(), cur.cfg.clone(), cur.ops.clone());
        // 1. remove chunks of operations
        let mut chunk = (cur.ops.len() / 2).max(1);
        while execs < budget {
            let mut start = 0;
            let mut progressed = false;
            while start < cur.ops.len() && execs < budget {
                let end = (start + chunk).min(cur.ops.len());
                let mut cand = cur.clone();
                cand.ops.drain(start..end);
                if let Some(eff) = fails(&cand, &mut execs) {
                    cur = eff;
                    progressed = true;
                } else {
                    start = end;
                }
            }
            if chunk > 1 {
                chunk /= 2;
            } else if !progressed {
                break;
            }
        }
        // 2. shrink configuration values
        let mut ci = 0;
        while ci < cur.cfg.len() && execs < budget {
            let v = cur.cfg[ci].1;
            let mut improved = false;
            for cand_v in [0, 1, v / 2, v - 1] {
                if cand_v >= v || cand_v < 0 {
                    continue;
                }
                let mut cand = cur.clone();
                cand.cfg[ci].1 = cand_v;
                if let Some(eff) = fails(&cand, &mut execs) {
                    // the scenario clamps values into their legal range: only accept real progress
                    if eff.cfg.len() == cur.cfg.len()
                        && eff.cfg[ci].0 == cur.cfg[ci].0
                        && eff.cfg[ci].1 < v
                    {
                        cur = eff;
                        improved = true;
                        break;
                    }
                }
            }
            if !improved {
                ci += 1;
            }
        }
        // 3. shrink integer arguments
        let mut oi = 0;
        while oi < cur.ops.len() && execs < budget {
            let spec = specs.get(cur.ops[oi].k as usize);
            let maskbits = spec.map(|s| s.shrink).unwrap_or(0);
            for arg in 0..3 {
                if maskbits & (1 << arg) == 0 {
                    continue;
                }
                loop {
                    if oi >= cur.ops.len() || execs >= budget {
                        break;
                    }
                    let get = |o: &Op| match arg {
                        0 => o.a,
                        1 => o.b,
                        _ => o.c,
                    };
                    let v = get(&cur.ops[oi]);
                    if v <= 0 {
                        break;
                    }
                    let mut improved = false;
                    for cand_v in [0, v / 2, v - 1] {
                        if cand_v >= v {
                            continue;
                        }
                        let mut cand = cur.clone();
                        match arg {
                            0 => cand.ops[oi].a = cand_v,
                            1 => cand.ops[oi].b = cand_v,
                            _ => cand.ops[oi].c = cand_v,
                        }
                        if let Some(eff) = fails(&cand, &mut execs) {
                            if eff.ops.len() <= cur.ops.len() {
                                cur = eff;
                                improved = true;
                                break;
                            }
                        }
                    }
                    if !improved {
                        break;
                    }
                }
            }
            oi += 1;
        }
        let after = (cur.ops.len(), cur.cfg.clone(), cur.ops.clone());
        if after == before || execs >= budget {
            break;
        }
    }
    (cur, execs)
}
