//! simcore: the dasp-independent part of the deterministic simulator.
pub mod alloc;
pub mod batch;
pub mod case;
pub mod cli;
pub mod json;
pub mod obs;
pub mod rng;

pub use batch::Scenario;
pub use case::{f2i, i2f, Case, Mode, Op, OpSpec, Source};
pub use obs::{Observer, Violation};
pub use rng::Rng;
