//! dsim-nostd: the RMS scenario against the no_std feature set of the dasp crates
//! (`sample_sqrt` is the exponent-halving bit trick instead of libm).
#[path = "../../dsim/src/raw.rs"]
mod raw;
#[path = "../../dsim/src/rms.rs"]
mod rms;

use simcore::Scenario;

fn main() {
    let scens: Vec<&dyn Scenario> = vec![&rms::RmsScenario];
    simcore::cli::main(&scens)
}
