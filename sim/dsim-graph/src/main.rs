//! dsim-graph: deterministic simulation scenarios over the in-tree dasp_graph + petgraph.
mod glike;
mod graph;

use simcore::Scenario;

fn main() {
    let scens: Vec<&dyn Scenario> = vec![&graph::GraphScenario];
    simcore::cli::main(&scens)
}
