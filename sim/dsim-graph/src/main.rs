//! dsim-graph: deterministic simulation scenarios over the in-tree dasp_graph + petgraph.
mod glike;
mod graph;
mod nodes;

use simcore::Scenario;

fn main() {
    let scens: Vec<&dyn Scenario> = vec![&graph::GraphScenario, &nodes::NodesScenario];
    simcore::cli::main(&scens)
}
