//! dsim-graph: deterministic simulation scenarios over the in-tree dasp_graph + petgraph.
mod glike;
mod galloc;
mod graph;
mod nodes;

use simcore::Scenario;

#[global_allocator]
static GLOBAL: simcore::alloc::CountingAlloc = simcore::alloc::CountingAlloc;

fn main() {
    let scens: Vec<&dyn Scenario> = vec![&graph::GraphScenario, &nodes::NodesScenario, &galloc::GraphAllocScenario];
    simcore::cli::main(&scens)
}
