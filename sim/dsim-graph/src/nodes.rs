//! C16 — the stock graph nodes compute their documented mixing / routing / delay functions.
//!
//! Same operator + audio-callback structure as the `graph` scenario, but the nodes are the real
//! stock nodes (Sum, SumBuffers, Pass, Delay, signal node, nested GraphNode) behind every wrapper
//! type (BoxedNode, BoxedNodeSend, Box<dyn Node>, Box<T>, &mut T, fn pointer, dyn Fn, dyn FnMut),
//! fed by seeded sources whose buffers carry small integers, over histories of consecutive
//! `process` calls on DAGs that are reconfigured between calls.

use crate::glike::{GraphLike, Mirror};
use dasp_graph::node::{Delay, GraphNode, Pass, Sum, SumBuffers};
use dasp_graph::{BoxedNode, BoxedNodeSend, Buffer, Input, Node, NodeData, Processor};
use dasp_ring_buffer as ring_buffer;
use dasp_signal::Signal;
use petgraph::graph::{Graph, NodeIndex};
use petgraph::stable_graph::StableGraph;
use simcore::{check, check_eq, Observer, Op, OpSpec, Rng, Scenario, Source, Violation};
use std::cell::Cell;
use std::collections::VecDeque;
use std::marker::PhantomData;

pub struct NodesScenario;

const LEN: usize = 64;
type Buf = [f32; LEN];

const O_ADD_NODE: u8 = 0; // a = kind, b = buffers, c = parameter
const O_ADD_EDGE: u8 = 1;
const O_REMOVE_EDGE: u8 = 2;
const O_REMOVE_NODE: u8 = 3;
const O_PROCESS: u8 = 4;

static OPS: [OpSpec; 5] = [
    OpSpec { name: "add_node", shrink: 6 },
    OpSpec { name: "add_edge", shrink: 3 },
    OpSpec { name: "remove_edge", shrink: 1 },
    OpSpec { name: "remove_node", shrink: 1 },
    OpSpec { name: "process", shrink: 1 },
];

const K_SRC: i64 = 0;
const K_SRC_FNPTR: i64 = 1;
const K_SRC_DYN_FNMUT: i64 = 2;
const K_SRC_DYN_FN: i64 = 3;
const K_SIGNAL: i64 = 4;
const K_SUM: i64 = 5;
const K_SUMBUF: i64 = 6;
pub const K_PASS: i64 = 7;
pub const K_DELAY: i64 = 8;
pub const K_GRAPHNODE: i64 = 9;
const K_SUM_REF: i64 = 10; // &'static mut Sum
pub const K_PASS_BOXED_TWICE: i64 = 11; // Box<Pass> inside the wrapper
const K_SUMBUF_REF: i64 = 12;
pub const N_KINDS: i64 = 13;

pub static KIND_NAMES: [&str; 13] = [
    "source(struct)",
    "source(fn pointer)",
    "source(dyn FnMut)",
    "source(dyn Fn)",
    "signal node",
    "Sum",
    "SumBuffers",
    "Pass",
    "Delay",
    "GraphNode",
    "&mut Sum",
    "Box<Pass>",
    "&mut SumBuffers",
];

const F_BUFFER_MISMATCH: usize = 0;
const F_ZERO_INPUTS: usize = 1;
const F_RECONFIGURED: usize = 2;
const F_DELAY_CARRY: usize = 3;
const F_SIGNAL_CARRY: usize = 4;
const F_NOT_PROCESSED_KEEPS: usize = 5;
const F_GRAPHNODE_FEWER_INPUTS: usize = 6;
const F_PARALLEL_EDGE: usize = 7;
const F_CONSUMER_PANIC: usize = 8;

const P_KIND_BASE: usize = 0; // 13 probes, one per kind processed
const P_MAG_CAP: usize = 13;
const P_DELAY_LONGER_THAN_BUFFER: usize = 14;
const P_TWELVE_CALLS: usize = 15;
const P_1024_CALLS: usize = 16;

// ---------------------------------------------------------------------------------------------
// wrappers
// ---------------------------------------------------------------------------------------------

/// Payload of the injected unwinding.
pub struct InjectedCrash;
/// A consumer that fails: its `process` unwinds (the host catches it and keeps the processor).
pub struct Bomb;
impl Node for Bomb {
    fn process(&mut self, _inputs: &[Input], _output: &mut [Buffer]) {
        std::panic::panic_any(InjectedCrash);
    }
}

/// A stock `Delay` that replaces itself by its clone before block `clone_at` (counted from 0).
pub struct SnapDelay {
    inner: Delay<Vec<f32>>,
    calls: u64,
    clone_at: u64,
}
impl Node for SnapDelay {
    fn process(&mut self, inputs: &[Input], output: &mut [Buffer]) {
        if self.calls == self.clone_at {
            let c = self.inner.clone();
            self.inner = c;
        }
        self.calls += 1;
        self.inner.process(inputs, output)
    }
}

// Invocation accounting: every node handed to a wrapper is first put inside `Counting`, which
// bumps a per-tag thread-local counter (const-initialised cells: no heap) and forwards.  A wrapper
// that does not forward `process` to the node it holds shows up as a count that lags the model.
const COUNT_SLOTS: usize = 4096;
thread_local! {
    static INVOKED: [Cell<u32>; COUNT_SLOTS] = const { [const { Cell::new(0) }; COUNT_SLOTS] };
    static CUR_TAG: Cell<u32> = const { Cell::new(0) };
}
pub fn reset_invocations() {
    INVOKED.with(|v| v.iter().for_each(|c| c.set(0)));
}
pub fn invocations(tag: u32) -> Option<u32> {
    if (tag as usize) < COUNT_SLOTS {
        Some(INVOKED.with(|v| v[tag as usize].get()))
    } else {
        None
    }
}
pub struct Counting<T> {
    inner: T,
    tag: u32,
}
impl<T> Counting<T> {
    fn new(inner: T) -> Self {
        Counting { inner, tag: CUR_TAG.with(|c| c.get()) }
    }
}
impl<T: Node> Node for Counting<T> {
    fn process(&mut self, inputs: &[Input], output: &mut [Buffer]) {
        // tag 0: nodes inside a nested graph (not accounted)
        if self.tag != 0 && (self.tag as usize) < COUNT_SLOTS {
            INVOKED.with(|v| v[self.tag as usize].set(v[self.tag as usize].get() + 1));
        }
        self.inner.process(inputs, output)
    }
}

pub trait Wrap: Node + Sized + 'static {
    const NAME: &'static str;
    fn wrap<T: Node + Send + 'static>(t: T) -> Self;
    /// nodes that are not `Send` (dyn closures, dyn Signal): unavailable behind `BoxedNodeSend`
    fn wrap_local<T: Node + 'static>(t: T) -> Option<Self>;
    fn wrap_graph(gn: GraphNode<Graph<NodeData<Self>, ()>, Self>) -> Self;
    /// Node data through one of the library's constructors (`variant` picks among the applicable
    /// ones: `new`, the silent short-hands `new1` / `new2`, and for `BoxedNode` the `boxed*` family).
    fn data(node: Self, init: f32, nbuf: usize, variant: i64) -> NodeData<Self> {
        let silent = init == 0.0;
        match (silent, nbuf, variant.rem_euclid(2)) {
            (true, 1, 1) => NodeData::new1(node),
            (true, 2, 1) => NodeData::new2(node),
            _ => NodeData::new(node, vec![Buffer::from([init; LEN]); nbuf]),
        }
    }
    /// Take the wrapper apart and put it together again through its conversions (identity).
    fn reassemble(self) -> Self {
        self
    }
}
impl Wrap for BoxedNode {
    fn data(node: Self, init: f32, nbuf: usize, variant: i64) -> NodeData<Self> {
        let silent = init == 0.0;
        // the wrapper is itself a node: `boxed*` box it once more
        match (silent, nbuf, variant.rem_euclid(4)) {
            (true, 1, 1) => NodeData::new1(node),
            (true, 2, 1) => NodeData::new2(node),
            (true, 1, 2) => NodeData::boxed1(node),
            (true, 2, 2) => NodeData::boxed2(node),
            (_, _, 3) => NodeData::boxed(node, vec![Buffer::from([init; LEN]); nbuf]),
            _ => NodeData::new(node, vec![Buffer::from([init; LEN]); nbuf]),
        }
    }
    fn reassemble(mut self) -> Self {
        // DerefMut reaches the boxed node; Into hands the box out
        let _: &mut Box<dyn Node> = &mut *self;
        let b: Box<dyn Node> = self.into();
        BoxedNode(b)
    }
    const NAME: &'static str = "BoxedNode";
    fn wrap<T: Node + Send + 'static>(t: T) -> Self {
        BoxedNode::new(Counting::new(t))
    }
    fn wrap_local<T: Node + 'static>(t: T) -> Option<Self> {
        Some(BoxedNode::new(Counting::new(t)))
    }
    fn wrap_graph(gn: GraphNode<Graph<NodeData<Self>, ()>, Self>) -> Self {
        BoxedNode::new(Counting::new(gn))
    }
}
impl Wrap for BoxedNodeSend {
    fn reassemble(mut self) -> Self {
        let _: &mut Box<dyn Node + Send> = &mut *self;
        let b: Box<dyn Node + Send> = self.into();
        BoxedNodeSend(b)
    }
    const NAME: &'static str = "BoxedNodeSend";
    fn wrap<T: Node + Send + 'static>(t: T) -> Self {
        BoxedNodeSend::new(Counting::new(t))
    }
    fn wrap_local<T: Node + 'static>(_: T) -> Option<Self> {
        None
    }
    fn wrap_graph(gn: GraphNode<Graph<NodeData<Self>, ()>, Self>) -> Self {
        BoxedNodeSend::new(Counting::new(gn))
    }
}
impl Wrap for Box<dyn Node> {
    const NAME: &'static str = "Box<dyn Node>";
    fn wrap<T: Node + Send + 'static>(t: T) -> Self {
        Box::new(Counting::new(t))
    }
    fn wrap_local<T: Node + 'static>(t: T) -> Option<Self> {
        Some(Box::new(Counting::new(t)))
    }
    fn wrap_graph(gn: GraphNode<Graph<NodeData<Self>, ()>, Self>) -> Self {
        Box::new(Counting::new(gn))
    }
}

// ---------------------------------------------------------------------------------------------
// harness-side nodes (sources)
// ---------------------------------------------------------------------------------------------

fn src_val(tag: u32, call: u32, ch: usize, i: usize) -> f32 {
    ((tag as usize * 7 + ch * 3 + i + call as usize * 5) % 17) as f32 - 8.0
}
fn sig_val(tag: u32, k: u64, c: usize) -> f32 {
    ((k as usize * 3 + c * 5 + tag as usize) % 13) as f32 - 6.0
}

struct SrcNode {
    tag: u32,
    call: u32,
}
impl Node for SrcNode {
    fn process(&mut self, _: &[Input], output: &mut [Buffer]) {
        for (ch, b) in output.iter_mut().enumerate() {
            for i in 0..LEN {
                b[i] = src_val(self.tag, self.call, ch, i);
            }
        }
        self.call += 1;
    }
}
struct NoopNode;
impl Node for NoopNode {
    fn process(&mut self, _: &[Input], _: &mut [Buffer]) {}
}
fn sevens(_: &[Input], output: &mut [Buffer]) {
    for b in output.iter_mut() {
        for s in b.iter_mut() {
            *s = 7.0;
        }
    }
}

// ---------------------------------------------------------------------------------------------
// model
// ---------------------------------------------------------------------------------------------

#[derive(Clone)]
pub struct NodeM {
    pub tag: u32,
    pub kind: i64,
    pub bufs: Vec<[f32; 64]>,
    calls: u32,
    delay: Vec<VecDeque<f32>>,
    sig_channels: usize,
    sig_pos: u64,
    /// signal node over a finite source with an offset adaptor on top: reports exhaustion after
    /// `sig_end` frames but keeps yielding the (non-silent) offset
    sig_end: Option<u64>,
    sig_offset: f32,
    /// physical start index of each delay ring (recovered ring state)
    delay_first: Vec<usize>,
    inner_in: Vec<Vec<Buf>>,
    inner_sum_bufs: usize,
    processed_once: bool,
}

fn eval_node(n: &mut NodeM, inputs: &[Vec<Buf>], obs: &mut Observer) {
    let nb = n.bufs.len();
    obs.probe(P_KIND_BASE + n.kind as usize);
    if inputs.is_empty() {
        obs.fault(F_ZERO_INPUTS);
    }
    if inputs.iter().any(|i| i.len() != nb) {
        obs.fault(F_BUFFER_MISMATCH);
    }
    match n.kind {
        K_SRC | K_SRC_DYN_FNMUT => {
            for ch in 0..nb {
                for i in 0..LEN {
                    n.bufs[ch][i] = src_val(n.tag, n.calls, ch, i);
                }
            }
        }
        K_SRC_FNPTR => {
            for b in n.bufs.iter_mut() {
                *b = [7.0; LEN];
            }
        }
        K_SRC_DYN_FN => {
            for (ch, b) in n.bufs.iter_mut().enumerate() {
                *b = [3.0 * (ch as f32 + 1.0); LEN];
            }
        }
        K_SIGNAL => {
            if n.sig_pos > 0 {
                obs.fault(F_SIGNAL_CARRY);
            }
            let chans = n.sig_channels.min(nb);
            for ix in 0..LEN {
                for ch in 0..chans {
                    let live = n.sig_end.map(|e| n.sig_pos < e).unwrap_or(true);
                    n.bufs[ch][ix] = if live { sig_val(n.tag, n.sig_pos, ch) } else { 0.0 } + n.sig_offset;
                }
                n.sig_pos += 1;
            }
        }
        K_SUM | K_SUM_REF => {
            for ch in 0..nb {
                let mut acc = [0.0f32; LEN];
                for inp in inputs {
                    if let Some(b) = inp.get(ch) {
                        for i in 0..LEN {
                            acc[i] += b[i];
                        }
                    }
                }
                n.bufs[ch] = acc;
            }
        }
        K_SUMBUF | K_SUMBUF_REF => {
            if nb > 0 {
                let mut acc = [0.0f32; LEN];
                for inp in inputs {
                    for b in inp {
                        for i in 0..LEN {
                            acc[i] += b[i];
                        }
                    }
                }
                for b in n.bufs.iter_mut() {
                    *b = acc;
                }
            }
        }
        K_PASS | K_PASS_BOXED_TWICE => {
            if let Some(inp) = inputs.first() {
                for ch in 0..nb.min(inp.len()) {
                    n.bufs[ch] = inp[ch];
                }
            }
        }
        K_DELAY => {
            if let Some(inp) = inputs.first() {
                if n.processed_once {
                    obs.fault(F_DELAY_CARRY);
                }
                let chans = n.delay.len().min(inp.len()).min(nb);
                for ch in 0..chans {
                    for i in 0..LEN {
                        n.delay[ch].push_back(inp[ch][i]);
                        n.bufs[ch][i] = n.delay[ch].pop_front().unwrap();
                    }
                }
                n.processed_once = true;
            }
        }
        K_GRAPHNODE => {
            let k = n.inner_in.len();
            if inputs.len() < k && n.processed_once {
                obs.fault(F_GRAPHNODE_FEWER_INPUTS);
            }
            for (j, inp) in inputs.iter().enumerate().take(k) {
                let nbi = n.inner_in[j].len();
                for ch in 0..nbi.min(inp.len()) {
                    n.inner_in[j][ch] = inp[ch];
                }
            }
            // inner Sum node over the k inner input nodes
            let mut inner_out = vec![[0.0f32; LEN]; n.inner_sum_bufs];
            for (ch, out) in inner_out.iter_mut().enumerate() {
                for j in 0..k {
                    if let Some(b) = n.inner_in[j].get(ch) {
                        for i in 0..LEN {
                            out[i] += b[i];
                        }
                    }
                }
            }
            for ch in 0..nb.min(inner_out.len()) {
                n.bufs[ch] = inner_out[ch];
            }
            n.processed_once = true;
        }
        _ => unreachable!(),
    }
    n.calls += 1;
}

// ---------------------------------------------------------------------------------------------
// driver
// ---------------------------------------------------------------------------------------------

/// `snap_delay`: odd-parameter Delay nodes swap themselves for their clone mid-run (allocates: the
/// allocation scenario switches it off)
pub fn make_node<W: Wrap>(m: &NodeM, param: i64, snap_delay: bool) -> Option<W> {
    let tag = m.tag;
    CUR_TAG.with(|c| c.set(tag));
    Some(match m.kind {
        K_SRC => W::wrap(SrcNode { tag, call: 0 }),
        K_SRC_FNPTR => W::wrap(sevens as fn(&[Input], &mut [Buffer])),
        K_SRC_DYN_FNMUT => {
            let mut call = 0u32;
            let f: Box<dyn FnMut(&[Input], &mut [Buffer])> = Box::new(move |_: &[Input], output: &mut [Buffer]| {
                for (ch, b) in output.iter_mut().enumerate() {
                    for i in 0..LEN {
                        b[i] = src_val(tag, call, ch, i);
                    }
                }
                call += 1;
            });
            W::wrap_local(f)?
        }
        K_SRC_DYN_FN => {
            let f: Box<dyn Fn(&[Input], &mut [Buffer])> = Box::new(|_: &[Input], output: &mut [Buffer]| {
                for (ch, b) in output.iter_mut().enumerate() {
                    for s in b.iter_mut() {
                        *s = 3.0 * (ch as f32 + 1.0);
                    }
                }
            });
            W::wrap_local(f)?
        }
        K_SIGNAL if m.sig_end.is_some() => {
            let end = m.sig_end.unwrap();
            let off = m.sig_offset;
            match m.sig_channels {
                1 => {
                    let s: Box<dyn Signal<Frame = [f32; 1]>> =
                        Box::new(dasp_signal::from_iter((0..end).map(move |k| [sig_val(tag, k, 0)])).offset_amp(off));
                    W::wrap_local(s)?
                }
                2 => {
                    let s: Box<dyn Signal<Frame = [f32; 2]>> =
                        Box::new(dasp_signal::from_iter((0..end).map(move |k| [sig_val(tag, k, 0), sig_val(tag, k, 1)])).offset_amp(off));
                    W::wrap_local(s)?
                }
                _ => {
                    let s: Box<dyn Signal<Frame = [f32; 3]>> = Box::new(
                        dasp_signal::from_iter((0..end).map(move |k| [sig_val(tag, k, 0), sig_val(tag, k, 1), sig_val(tag, k, 2)])).offset_amp(off),
                    );
                    W::wrap_local(s)?
                }
            }
        }
        K_SIGNAL => {
            let mut k = 0u64;
            match m.sig_channels {
                1 => {
                    let s: Box<dyn Signal<Frame = [f32; 1]>> = Box::new(dasp_signal::gen_mut(move || {
                        let f = [sig_val(tag, k, 0)];
                        k += 1;
                        f
                    }));
                    W::wrap_local(s)?
                }
                2 => {
                    let s: Box<dyn Signal<Frame = [f32; 2]>> = Box::new(dasp_signal::gen_mut(move || {
                        let f = [sig_val(tag, k, 0), sig_val(tag, k, 1)];
                        k += 1;
                        f
                    }));
                    W::wrap_local(s)?
                }
                _ => {
                    let s: Box<dyn Signal<Frame = [f32; 3]>> = Box::new(dasp_signal::gen_mut(move || {
                        let f = [sig_val(tag, k, 0), sig_val(tag, k, 1), sig_val(tag, k, 2)];
                        k += 1;
                        f
                    }));
                    W::wrap_local(s)?
                }
            }
        }
        K_SUM => W::wrap(Sum),
        K_SUMBUF => W::wrap(SumBuffers),
        K_PASS => W::wrap(Pass),
        // zero-sized nodes: leaking the box allocates nothing
        K_SUM_REF => W::wrap(Box::leak(Box::new(Sum)) as &'static mut Sum),
        K_SUMBUF_REF => W::wrap(Box::leak(Box::new(SumBuffers)) as &'static mut SumBuffers),
        K_PASS_BOXED_TWICE => W::wrap(Box::new(Pass)),
        K_DELAY => {
            // the model keeps each ring oldest-first; the real ring may start anywhere (recovered state)
            let rings: Vec<ring_buffer::Fixed<Vec<f32>>> = m
                .delay
                .iter()
                .zip(m.delay_first.iter())
                .map(|(d, &first)| {
                    let len = d.len();
                    let mut phys = vec![0.0f32; len];
                    for (i, v) in d.iter().enumerate() {
                        phys[(first + i) % len] = *v;
                    }
                    ring_buffer::Fixed::from_raw_parts(first, phys)
                })
                .collect();
            if snap_delay && param % 2 == 1 {
                // same node, but it swaps itself for its own clone before the k-th block (a
                // snapshot/restore of a running delay line): the history must survive the copy
                W::wrap(SnapDelay {
                    inner: Delay(rings),
                    calls: 0,
                    clone_at: 1 + (param as u64 / 2 + tag as u64) % 4,
                })
            } else {
                W::wrap(Delay(rings))
            }
        }
        K_GRAPHNODE => {
            let k = m.inner_in.len();
            let mut g: Graph<NodeData<W>, ()> = Graph::with_capacity(k + 1, k);
            // the nodes of the nested graph share one counter (outer tag + 2048): each of them must run
            // once per outer invocation, whatever buffers the outer node has
            CUR_TAG.with(|c| c.set(if tag < 2048 { tag + 2048 } else { 0 }));
            let out = g.add_node(NodeData::new(W::wrap(Sum), vec![Buffer::SILENT; m.inner_sum_bufs]));
            let mut ins = Vec::new();
            for j in 0..k {
                let n = g.add_node(NodeData::new(W::wrap(NoopNode), vec![Buffer::SILENT; m.inner_in[j].len()]));
                g.add_edge(n, out, ());
                ins.push(n);
            }
            let _ = param;
            CUR_TAG.with(|c| c.set(tag));
            W::wrap_graph(GraphNode {
                processor: Processor::with_capacity(k + 1),
                graph: g,
                input_nodes: ins,
                output_node: out,
                node_type: PhantomData,
            })
        }
        _ => return None,
    })
}

pub fn new_model(tag: u32, kind: i64, nbuf: usize, param: i64, init: f32) -> NodeM {
    let p = param.max(0) as usize;
    let mut m = NodeM {
        tag,
        kind,
        bufs: vec![[init; LEN]; nbuf],
        calls: 0,
        delay: Vec::new(),
        sig_channels: 0,
        sig_pos: 0,
        sig_end: None,
        sig_offset: 0.0,
        delay_first: Vec::new(),
        inner_in: Vec::new(),
        inner_sum_bufs: 0,
        processed_once: false,
    };
    match kind {
        K_SIGNAL => {
            m.sig_channels = 1 + p % 3;
            if p % 5 == 0 {
                m.sig_end = Some([0u64, 10, 64, 100, 130][(p / 5) % 5]);
                m.sig_offset = 0.5;
            }
        }
        K_DELAY => {
            // ring lengths 1..=200, different per channel; initial content non-zero
            let rings = p % 4;
            for ch in 0..rings {
                // ring lengths 1..=200, rarely far beyond one buffer / a power of two
                let len = if p % 41 == 7 {
                    [256usize, 257, 1000, 4096, 4097][(p / 41 + ch) % 5]
                } else if p % 11 == 3 {
                    [64usize, 128, 192][(p / 11 + ch) % 3]
                } else {
                    1 + (p / 4 + ch * 37) % 200
                };
                m.delay_first.push(if p % 3 == 0 { (p / 7 + ch * 5) % len } else { 0 });
                m.delay.push((0..len).map(|i| ((i + ch) % 5) as f32 + 1.0).collect());
            }
        }
        K_GRAPHNODE => {
            let k = 1 + p % 3;
            let nbi = 1 + (p / 3) % 2;
            m.inner_in = vec![vec![[0.0; LEN]; nbi]; k];
            m.inner_sum_bufs = 1 + (p / 6) % 3;
        }
        _ => {}
    }
    m
}

struct Gen {
    steps: usize,
    done: usize,
    init: i64,
}

fn gen_op(r: &mut Rng, g: &mut Gen, live: usize, edges: usize, calls: u32) -> Option<Op> {
    if g.done >= g.steps {
        return None;
    }
    let add = |r: &mut Rng| Op::new(O_ADD_NODE, r.range(0, N_KINDS - 1), *r.pick(&[0i64, 1, 1, 2, 2, 3, 3, 9, 12, 17]), r.range(0, 4000));
    if g.init > 0 {
        g.init -= 1;
        if live < 2 || r.chance(2, 5) {
            return Some(add(r));
        }
        return Some(Op::kab(O_ADD_EDGE, r.range(0, live as i64 - 1), r.range(0, live as i64 - 1)));
    }
    let w = [
        if live < 8 { 2u32 } else { 0 },
        if live > 0 { 4 } else { 0 },
        if edges > 0 { 2 } else { 0 },
        if live > 1 { 1 } else { 0 },
        if live > 0 { if g.steps > 1000 { 80 } else if calls < 12 { 12 } else { 3 } } else { 0 },
    ];
    Some(match r.weighted(&w) as u8 {
        O_ADD_NODE => add(r),
        O_ADD_EDGE => Op::kab(O_ADD_EDGE, r.range(0, live as i64 - 1), r.range(0, live as i64 - 1)),
        O_REMOVE_EDGE => Op::ka(O_REMOVE_EDGE, r.range(0, edges as i64 - 1)),
        O_REMOVE_NODE => Op::ka(O_REMOVE_NODE, r.range(0, live as i64 - 1)),
        // b = 1: the call is cut short — a failing consumer is attached to the output node for this call
        _ => Op::kab(O_PROCESS, r.range(0, live as i64 - 1), r.chance(1, 6) as i64),
    })
}

fn drive<W: Wrap, G: GraphLike<W>>(src: &mut Source, obs: &mut Observer) -> Result<(), Violation> {
    let mut gen = Gen {
        steps: src.cfg("steps", 0, 1300, |r| if r.chance(1, 150) { r.range(1050, 1300) } else { r.range(3, 48) }) as usize,
        done: 0,
        init: src.cfg("init_ops", 0, 16, |r| r.range(2, 16)),
    };
    let mut g: G = G::new_with_capacity(8, 16);
    let mut m: Mirror<NodeM> = Mirror::new(G::STABLE);
    let mut p: Processor<G> = G::make_processor(8);
    reset_invocations();
    let mut next_tag = 1u32;
    let mut calls = 0u32;
    let mut dirty = false;

    loop {
        let (live_n, edges_n) = (m.live().len(), m.edges.len());
        let op = src.next_op(|r| gen_op(r, &mut gen, live_n, edges_n, calls));
        let Some(op) = op else { break };
        gen.done += 1;
        let live = m.live();
        let pick = |pos: i64| -> Option<usize> {
            if live.is_empty() {
                None
            } else {
                Some(live[(pos.max(0) as usize) % live.len()])
            }
        };
        match op.k {
            O_ADD_NODE => {
                if live.len() >= 8 {
                    src.skip_last();
                    obs.skipped();
                    continue;
                }
                let kind = op.a.rem_euclid(N_KINDS);
                let nbuf = op.b.clamp(0, 17) as usize;
                let tag = next_tag;
                let init = if op.c % 2 == 0 { 0.0 } else { 100.0 + tag as f32 };
                let model = new_model(tag, kind, nbuf, op.c, init);
                let Some(node) = make_node::<W>(&model, op.c, true) else {
                    // this node kind cannot live behind this wrapper (not Send)
                    src.skip_last();
                    obs.skipped();
                    continue;
                };
                obs.tick(op.k);
                obs.note(kind as u64 * 8 + nbuf as u64);
                next_tag += 1;
                let node = if (op.c / 8) % 3 == 0 { node.reassemble() } else { node };
                let idx = g.add(W::data(node, init, nbuf, op.c / 2));
                m.add_at(idx.index(), model);
                if kind == K_DELAY && m.slots[idx.index()].as_ref().unwrap().delay.iter().any(|d| d.len() > LEN) {
                    obs.probe(P_DELAY_LONGER_THAN_BUFFER);
                }
                dirty = true;
            }
            O_ADD_EDGE => {
                let (Some(a), Some(b)) = (pick(op.a), pick(op.b)) else {
                    src.skip_last();
                    obs.skipped();
                    continue;
                };
                let kb = m.slots[b].as_ref().unwrap().kind;
                let single_input = matches!(kb, K_PASS | K_PASS_BOXED_TWICE | K_DELAY);
                let other_source = m.edges.iter().any(|&(x, y)| y == b && x != b && x != a);
                // DAGs only (self-loops are fine: they are never presented as inputs); Pass and Delay
                // read "a single input": the property does not say which of several, so they get one
                if m.edges.len() >= 16 || (a != b && m.would_cycle(a, b)) || (single_input && other_source && a != b) {
                    src.skip_last();
                    obs.skipped();
                    continue;
                }
                obs.tick(op.k);
                if m.edges.contains(&(a, b)) {
                    obs.fault(F_PARALLEL_EDGE);
                }
                g.connect(NodeIndex::new(a), NodeIndex::new(b));
                m.edges.push((a, b));
                dirty = true;
            }
            O_REMOVE_EDGE => {
                if m.edges.is_empty() {
                    src.skip_last();
                    obs.skipped();
                    continue;
                }
                obs.tick(op.k);
                let (a, b) = m.edges[(op.a.max(0) as usize) % m.edges.len()];
                assert!(g.disconnect_one(NodeIndex::new(a), NodeIndex::new(b)), "harness mirror: edge missing");
                m.remove_edge(a, b);
                dirty = true;
            }
            O_REMOVE_NODE => {
                let Some(a) = pick(op.a) else {
                    src.skip_last();
                    obs.skipped();
                    continue;
                };
                obs.tick(op.k);
                assert!(g.remove(NodeIndex::new(a)).is_some(), "harness mirror: node missing");
                m.remove(a);
                dirty = true;
            }
            O_PROCESS => {
                let Some(out) = pick(op.a) else {
                    src.skip_last();
                    obs.skipped();
                    continue;
                };
                obs.tick(op.k);
                calls += 1;
                if calls > 1 {
                    obs.inflight();
                    if dirty {
                        obs.fault(F_RECONFIGURED);
                    }
                }
                if calls >= 12 {
                    obs.probe(P_TWELVE_CALLS);
                }
                if calls >= 1025 {
                    obs.probe(P_1024_CALLS);
                }
                dirty = false;
                let up = m.upstream(out);
                let order = m.topo(&up).expect("scheduler keeps the graph acyclic");
                if up.len() < live.len() && calls > 1 {
                    obs.fault(F_NOT_PROCESSED_KEEPS);
                }
                // reference evaluation, inputs in petgraph's own neighbour order
                for &n in &order {
                    let ins: Vec<Vec<Buf>> = g
                        .incoming(NodeIndex::new(n))
                        .iter()
                        .filter(|i| i.index() != n)
                        .map(|i| m.slots[i.index()].as_ref().unwrap().bufs.clone())
                        .collect();
                    let mut node = m.slots[n].take().unwrap();
                    eval_node(&mut node, &ins, obs);
                    m.slots[n] = Some(node);
                }
                let too_big = m
                    .slots
                    .iter()
                    .flatten()
                    .any(|n| n.bufs.iter().any(|b| b.iter().any(|v| v.abs() > 4_000_000.0)));
                if op.b == 1 {
                    // crash injection: a consumer hanging off the output node fails after everything
                    // upstream of it has run; the host catches the failure, detaches the consumer and
                    // keeps using graph and processor.  Everything the reference evaluated has run.
                    CUR_TAG.with(|c| c.set(0));
                    let bomb = g.add(NodeData::new(W::wrap(Bomb), Vec::new()));
                    g.connect(NodeIndex::new(out), bomb);
                    let r = std::panic::catch_unwind(std::panic::AssertUnwindSafe(|| g.run(&mut p, bomb)));
                    assert!(g.remove(bomb).is_some(), "harness mirror: failing consumer missing");
                    match r {
                        Ok(()) => check!(obs, false, "nodes.node-panic-propagates", "process() returned although a node on the path unwound"),
                        Err(pl) => {
                            if !pl.is::<InjectedCrash>() {
                                std::panic::resume_unwind(pl);
                            }
                            obs.fault(F_CONSUMER_PANIC);
                        }
                    }
                } else {
                    g.run(&mut p, NodeIndex::new(out));
                }
                if too_big {
                    // f32 sums would stop being exact: outside the exact-arithmetic domain of this run
                    obs.probe(P_MAG_CAP);
                    return Ok(());
                }
                // every node was invoked exactly as often as the reference evaluated it (a wrapper
                // that swallows a call shows here even when the node has no buffers to compare)
                for &n in &live {
                    let model = m.slots[n].as_ref().unwrap();
                    if model.kind == K_GRAPHNODE && model.tag < 2048 {
                        let inner = invocations(model.tag + 2048).unwrap_or(0);
                        check_eq!(
                            obs,
                            inner,
                            model.calls * (model.inner_in.len() as u32 + 1),
                            "nodes.nested-invocations",
                            "GraphNode tag {} behind {} ({} buffers, {} inner input nodes + inner sum): invocations of the nested graph's nodes after {} outer calls",
                            model.tag,
                            W::NAME,
                            model.bufs.len(),
                            model.inner_in.len(),
                            model.calls
                        );
                    }
                    if let Some(real) = invocations(model.tag) {
                        check_eq!(
                            obs,
                            real,
                            model.calls,
                            "nodes.invocations",
                            "{} node tag {} behind {} ({} buffers): times its process() ran",
                            KIND_NAMES[model.kind as usize],
                            model.tag,
                            W::NAME,
                            model.bufs.len()
                        );
                    }
                }
                // every node's buffers (processed or not) against the reference
                for &n in &live {
                    let real = &g.weight(NodeIndex::new(n)).unwrap().buffers;
                    let model = m.slots[n].as_ref().unwrap();
                    for (ch, (rb, mb)) in real.iter().zip(model.bufs.iter()).enumerate() {
                        if let Some(i) = (0..LEN).find(|&i| rb[i] != mb[i]) {
                            obs.note(rb[0].to_bits() as u64);
                            let processed = up.contains(&n);
                            check!(
                                obs,
                                false,
                                if processed { "nodes.output" } else { "nodes.untouched" },
                                "{} node tag {} behind {} ({} buffers{}), call {}: buffer {} sample {} is {}, reference says {} (inputs: {:?})",
                                KIND_NAMES[model.kind as usize],
                                model.tag,
                                W::NAME,
                                model.bufs.len(),
                                if processed { "" } else { ", not upstream of the output" },
                                calls,
                                ch,
                                i,
                                rb[i],
                                mb[i],
                                g.incoming(NodeIndex::new(n)).iter().map(|x| x.index()).collect::<Vec<_>>()
                            );
                        }
                    }
                    if let Some(b) = real.first() {
                        obs.note(b[1].to_bits() as u64);
                    }
                }
                let abs = (up.len() as u64) << 8 | (calls.min(13) as u64);
                obs.state(abs, op.k);
            }
            _ => {
                src.skip_last();
                obs.skipped();
                continue;
            }
        }
        assert_eq!(g.count(), m.live().len(), "harness mirror: node count");
    }
    Ok(())
}

impl Scenario for NodesScenario {
    fn name(&self) -> &'static str {
        "graph-nodes"
    }
    fn property(&self) -> &'static str {
        "C16"
    }
    fn ops(&self) -> &'static [OpSpec] {
        &OPS
    }
    fn faults(&self) -> &'static [&'static str] {
        &[
            "input with a different number of buffers than the node",
            "node processed with zero inputs",
            "graph reconfigured between two process calls",
            "delay line carries samples across calls",
            "signal node continues its signal across calls",
            "nodes outside the upstream set keep their buffers",
            "nested graph node with fewer inputs than inner input nodes (stale inner buffers)",
            "parallel edge",
            "node panic: a consumer attached to the output fails mid-call, the host catches it and reuses graph and processor",
        ]
    }
    fn probes(&self) -> &'static [&'static str] {
        &[
            "processed: source(struct)",
            "processed: source(fn pointer)",
            "processed: source(dyn FnMut)",
            "processed: source(dyn Fn)",
            "processed: signal node",
            "processed: Sum",
            "processed: SumBuffers",
            "processed: Pass",
            "processed: Delay",
            "processed: GraphNode",
            "processed: &mut Sum",
            "processed: Box<Pass>",
            "processed: &mut SumBuffers",
            "run stopped: values left the exact f32 range",
            "delay ring longer than one buffer",
            ">= 12 consecutive process calls",
            "> 1024 consecutive process calls (signal position past 2^16 frames)",
        ]
    }
    fn rule(&self) -> &'static str {
        "case = (Graph/StableGraph x wrapper BoxedNode/BoxedNodeSend/Box<dyn Node>, seeded DAG of stock nodes and sources with 0..3 buffers \
         each (mismatched on purpose), delay ring lengths 1..200, 2..12+ process calls with reconfiguration between calls); non-trivial = \
         at least one fault kind fired and at least one process call after the first; distinct = hash of (ops, buffer heads observed)"
    }
    fn real(&self) -> &'static [&'static str] {
        &[
            "dasp_graph::node::{Sum, SumBuffers, Pass, Delay, GraphNode}, Node for dyn Signal, BoxedNode, BoxedNodeSend, Box<T>, &mut T, fn pointer, dyn Fn, dyn FnMut",
            "dasp_graph::{Processor, process} from /repo",
            "crates.io 0.11.0 dasp_ring_buffer / dasp_slice / dasp_signal / dasp_frame underneath (as dasp_graph's manifest dictates)",
        ]
    }
    fn stubs(&self) -> &'static [&'static str] {
        &["seeded source nodes", "functional reference evaluator with per-node state over the harness's adjacency mirror"]
    }
    fn assumptions(&self) -> &'static [&'static str] {
        &[
            "graphs are kept acyclic (cyclic evaluation order is C09's subject) and Pass/Delay get inputs from at most one other node",
            "the reference reads a node's inputs in petgraph's own neighbour order (only observable through GraphNode's positional input mapping)",
            "buffer contents are small integers so every f32 sum is exact; a run stops when a value exceeds 4e6",
        ]
    }
    fn runs(&self, tier: &str) -> u64 {
        if tier == "quick" {
            200_000
        } else {
            20_000_000
        }
    }
    fn run(&self, src: &mut Source, obs: &mut Observer) -> Result<(), Violation> {
        let stable = src.cfg("stable_graph", 0, 1, |r| r.range(0, 1)) == 1;
        let wrapper = src.cfg("wrapper", 0, 2, |r| r.range(0, 2));
        obs.note(stable as u64 * 4 + wrapper as u64);
        match (stable, wrapper) {
            (false, 0) => drive::<BoxedNode, Graph<NodeData<BoxedNode>, ()>>(src, obs),
            (false, 1) => drive::<BoxedNodeSend, Graph<NodeData<BoxedNodeSend>, ()>>(src, obs),
            (false, _) => drive::<Box<dyn Node>, Graph<NodeData<Box<dyn Node>>, ()>>(src, obs),
            (true, 0) => drive::<BoxedNode, StableGraph<NodeData<BoxedNode>, ()>>(src, obs),
            (true, 1) => drive::<BoxedNodeSend, StableGraph<NodeData<BoxedNodeSend>, ()>>(src, obs),
            (true, _) => drive::<Box<dyn Node>, StableGraph<NodeData<Box<dyn Node>>, ()>>(src, obs),
        }
    }
}
