//! The two supported graph containers behind one harness trait.

use dasp_graph::{Node, NodeData, Processor};
use petgraph::graph::{Graph, NodeIndex};
use petgraph::stable_graph::StableGraph;
use petgraph::visit::Visitable;
use petgraph::{Directed, Incoming};

pub trait GraphLike<W: Node>: Sized + Visitable<NodeId = NodeIndex> {
    const STABLE: bool;
    fn new_with_capacity(nodes: usize, edges: usize) -> Self;
    fn add(&mut self, w: NodeData<W>) -> NodeIndex;
    fn connect(&mut self, a: NodeIndex, b: NodeIndex);
    fn remove(&mut self, a: NodeIndex) -> Option<NodeData<W>>;
    fn disconnect_one(&mut self, a: NodeIndex, b: NodeIndex) -> bool;
    fn weight(&self, a: NodeIndex) -> Option<&NodeData<W>>;
    fn weight_mut(&mut self, a: NodeIndex) -> Option<&mut NodeData<W>>;
    fn count(&self) -> usize;
    fn make_processor(cap: usize) -> Processor<Self>;
    fn run(&mut self, p: &mut Processor<Self>, out: NodeIndex);
    fn list_sources(&self) -> Vec<NodeIndex>;
    fn list_sinks(&self) -> Vec<NodeIndex>;
    /// petgraph's own iteration order of incoming neighbours (third party, trusted).
    fn incoming(&self, n: NodeIndex) -> Vec<NodeIndex>;
}

macro_rules! impl_glike {
    ($G:ident, $stable:expr) => {
        impl<W: Node> GraphLike<W> for $G<NodeData<W>, (), Directed, u32> {
            const STABLE: bool = $stable;
            fn new_with_capacity(nodes: usize, edges: usize) -> Self {
                $G::with_capacity(nodes, edges)
            }
            fn add(&mut self, w: NodeData<W>) -> NodeIndex {
                self.add_node(w)
            }
            fn connect(&mut self, a: NodeIndex, b: NodeIndex) {
                self.add_edge(a, b, ());
            }
            fn remove(&mut self, a: NodeIndex) -> Option<NodeData<W>> {
                self.remove_node(a)
            }
            fn disconnect_one(&mut self, a: NodeIndex, b: NodeIndex) -> bool {
                match self.find_edge(a, b) {
                    Some(e) => self.remove_edge(e).is_some(),
                    None => false,
                }
            }
            fn weight(&self, a: NodeIndex) -> Option<&NodeData<W>> {
                self.node_weight(a)
            }
            fn weight_mut(&mut self, a: NodeIndex) -> Option<&mut NodeData<W>> {
                self.node_weight_mut(a)
            }
            fn count(&self) -> usize {
                self.node_count()
            }
            fn make_processor(cap: usize) -> Processor<Self> {
                Processor::with_capacity(cap)
            }
            fn run(&mut self, p: &mut Processor<Self>, out: NodeIndex) {
                p.process(self, out)
            }
            fn list_sources(&self) -> Vec<NodeIndex> {
                dasp_graph::sources(&self).collect()
            }
            fn list_sinks(&self) -> Vec<NodeIndex> {
                dasp_graph::sinks(&self).collect()
            }
            fn incoming(&self, n: NodeIndex) -> Vec<NodeIndex> {
                self.neighbors_directed(n, Incoming).collect()
            }
        }
    };
}

impl_glike!(Graph, false);
impl_glike!(StableGraph, true);

/// The harness's own adjacency copy of a graph, mirroring petgraph's index behaviour
/// (swap-remove renumbering for `Graph`, vacant slots reused by `StableGraph`).
#[derive(Clone, Default)]
pub struct Mirror<M: Clone> {
    pub slots: Vec<Option<M>>,
    pub edges: Vec<(usize, usize)>,
    pub stable: bool,
}

impl<M: Clone> Mirror<M> {
    pub fn new(stable: bool) -> Self {
        Mirror {
            slots: Vec::new(),
            edges: Vec::new(),
            stable,
        }
    }
    pub fn live(&self) -> Vec<usize> {
        (0..self.slots.len()).filter(|&i| self.slots[i].is_some()).collect()
    }
    pub fn has_vacancy(&self) -> bool {
        self.slots.iter().any(|s| s.is_none())
    }
    pub fn add_at(&mut self, idx: usize, m: M) {
        if idx >= self.slots.len() {
            assert!(idx == self.slots.len(), "harness mirror: petgraph returned an unexpected index");
            self.slots.push(Some(m));
        } else {
            assert!(self.slots[idx].is_none(), "harness mirror: petgraph reused a live index");
            self.slots[idx] = Some(m);
        }
    }
    pub fn remove(&mut self, idx: usize) {
        self.edges.retain(|&(a, b)| a != idx && b != idx);
        if self.stable {
            self.slots[idx] = None;
        } else {
            let last = self.slots.len() - 1;
            self.slots.swap_remove(idx);
            if idx != last {
                for e in self.edges.iter_mut() {
                    if e.0 == last {
                        e.0 = idx;
                    }
                    if e.1 == last {
                        e.1 = idx;
                    }
                }
            }
        }
    }
    pub fn remove_edge(&mut self, a: usize, b: usize) -> bool {
        match self.edges.iter().position(|&e| e == (a, b)) {
            Some(p) => {
                self.edges.remove(p);
                true
            }
            None => false,
        }
    }
    /// `out` plus every node with a directed path to it.
    pub fn upstream(&self, out: usize) -> Vec<usize> {
        let mut seen = vec![false; self.slots.len()];
        let mut stack = vec![out];
        seen[out] = true;
        while let Some(n) = stack.pop() {
            for &(a, b) in &self.edges {
                if b == n && !seen[a] {
                    seen[a] = true;
                    stack.push(a);
                }
            }
        }
        (0..seen.len()).filter(|&i| seen[i]).collect()
    }
    /// Topological order of the given node set ignoring self-loops; None if it has a cycle.
    pub fn topo(&self, set: &[usize]) -> Option<Vec<usize>> {
        let inset = |x: usize| set.contains(&x);
        let mut indeg: Vec<usize> = vec![0; self.slots.len()];
        for &(a, b) in &self.edges {
            if a != b && inset(a) && inset(b) {
                indeg[b] += 1;
            }
        }
        let mut ready: Vec<usize> = set.iter().copied().filter(|&n| indeg[n] == 0).collect();
        let mut order = Vec::new();
        while let Some(n) = ready.pop() {
            order.push(n);
            for &(a, b) in &self.edges {
                if a == n && a != b && inset(b) {
                    indeg[b] -= 1;
                    if indeg[b] == 0 {
                        ready.push(b);
                    }
                }
            }
        }
        if order.len() == set.len() {
            Some(order)
        } else {
            None
        }
    }
    pub fn would_cycle(&self, a: usize, b: usize) -> bool {
        // adding a -> b creates a cycle iff b already reaches a (a == b is a self-loop)
        if a == b {
            return true;
        }
        self.upstream(a).contains(&b)
    }
}
