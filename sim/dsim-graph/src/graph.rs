//! C09 — graph processing runs exactly the upstream subgraph, once each, inputs first.
//!
//! Actors: the audio callback (`process(output)`) and an operator that reconfigures the graph
//! between calls (add/remove nodes and edges incl. self-loops, parallel edges and cycles, move
//! the output, swap in another graph on the same `Processor`).  Every node is a probe that logs
//! its invocation and stamps its buffers.

use crate::glike::{GraphLike, Mirror};
use dasp_graph::{BoxedNode, BoxedNodeSend, Buffer, Input, Node, NodeData, Processor};
use petgraph::graph::{Graph, NodeIndex};
use petgraph::stable_graph::StableGraph;
use simcore::{check, check_eq, Observer, Op, OpSpec, Rng, Scenario, Source, Violation};
use std::sync::atomic::{AtomicU32, Ordering};
use std::sync::{Arc, Mutex};

pub struct GraphScenario;

const O_ADD_NODE: u8 = 0; // a = number of buffers
const O_ADD_EDGE: u8 = 1; // a, b = positions in the live list
const O_REMOVE_EDGE: u8 = 2; // a = position in the edge list
const O_REMOVE_NODE: u8 = 3;
const O_PROCESS: u8 = 4; // a = position of the output node
const O_SOURCES_SINKS: u8 = 5;
const O_SWITCH_GRAPH: u8 = 6;
const O_PROCESS_NODE_PANICS: u8 = 7; // a = output position, b = position of the node that fails
const O_PROCESS_MISSING: u8 = 8; // process() with an index that names no node

static OPS: [OpSpec; 9] = [
    OpSpec { name: "add_node", shrink: 1 },
    OpSpec { name: "add_edge", shrink: 3 },
    OpSpec { name: "remove_edge", shrink: 1 },
    OpSpec { name: "remove_node", shrink: 1 },
    OpSpec { name: "process", shrink: 1 },
    OpSpec { name: "sources_sinks", shrink: 0 },
    OpSpec { name: "switch_graph", shrink: 0 },
    OpSpec { name: "process_while_a_node_panics", shrink: 3 },
    OpSpec { name: "process_missing_index", shrink: 0 },
];

const F_NODE_REMOVED: usize = 0;
const F_EDGE_REMOVED: usize = 1;
const F_CYCLE: usize = 2;
const F_OTHER_GRAPH: usize = 3;
const F_BIGGER_GRAPH: usize = 4;
const F_OUTPUT_MOVED: usize = 5;
const F_VACANT_SLOT: usize = 6;
const F_SELF_LOOP: usize = 7;
const F_PARALLEL_EDGE: usize = 8;
const F_INDEX_RENUMBERED: usize = 9;
const F_NODE_PANIC: usize = 10;
const F_MISSING_INDEX: usize = 11;

const P_UNREACHABLE_ISLAND: usize = 0;
const P_DIAMOND: usize = 1;
const P_CYCLE_THROUGH_OUTPUT: usize = 2;
const P_TEN_NODES: usize = 3;
const P_SOURCES_WITH_VACANCY: usize = 4;
const P_ACYCLIC_ORDER_CHECKED: usize = 5;
const P_ZERO_BUFFER_NODE: usize = 6;
const P_33_NODES: usize = 7;

struct Call {
    tag: u32,
    own_ptr: usize,
    own_len: usize,
    inputs: Vec<(usize, usize, f32, f32)>,
}

type Log = Arc<Mutex<Vec<Call>>>;

pub struct ProbeNode {
    tag: u32,
    log: Log,
    call: Arc<AtomicU32>,
    /// fault injection: the node with this tag fails (panics) the next time it is invoked
    fail_tag: Arc<AtomicU32>,
}

/// How the probe node is stored in the graph: bare, or behind one of the library's wrappers
/// (single-threaded use throughout; the shared handles are `Send` only so that `BoxedNodeSend`
/// accepts the node).
pub trait Holder: Node + Sized + 'static {
    const NAME: &'static str;
    fn hold(p: ProbeNode) -> Self;
}
impl Holder for ProbeNode {
    const NAME: &'static str = "ProbeNode";
    fn hold(p: ProbeNode) -> Self {
        p
    }
}
impl Holder for BoxedNode {
    const NAME: &'static str = "BoxedNode";
    fn hold(p: ProbeNode) -> Self {
        BoxedNode::new(p)
    }
}
impl Holder for BoxedNodeSend {
    const NAME: &'static str = "BoxedNodeSend";
    fn hold(p: ProbeNode) -> Self {
        BoxedNodeSend::new(p)
    }
}
impl Holder for Box<dyn Node> {
    const NAME: &'static str = "Box<dyn Node>";
    fn hold(p: ProbeNode) -> Self {
        Box::new(p)
    }
}

impl Node for ProbeNode {
    fn process(&mut self, inputs: &[Input], output: &mut [Buffer]) {
        if self.fail_tag.load(Ordering::Relaxed) == self.tag {
            self.fail_tag.store(0, Ordering::Relaxed);
            panic!("injected node failure");
        }
        let ins = inputs
            .iter()
            .map(|i| {
                let b = i.buffers();
                let (t, c) = if b.is_empty() { (-1.0, -1.0) } else { (b[0][0], b[0][1]) };
                (b.as_ptr() as usize, b.len(), t, c)
            })
            .collect();
        self.log.lock().unwrap_or_else(|e| e.into_inner()).push(Call {
            tag: self.tag,
            own_ptr: output.as_ptr() as usize,
            own_len: output.len(),
            inputs: ins,
        });
        if let Some(b) = output.first_mut() {
            b[0] = self.tag as f32;
            b[1] = self.call.load(Ordering::Relaxed) as f32;
        }
    }
}

#[derive(Clone)]
struct NodeM {
    tag: u32,
    nbuf: usize,
}

struct World<G> {
    g: G,
    m: Mirror<NodeM>,
    last_out_tag: Option<u32>,
    dirty_node_removed: bool,
    dirty_edge_removed: bool,
}

struct Gen {
    steps: usize,
    done: usize,
    init: i64,
    allow_cycles: bool,
    allow_switch: bool,
    max_nodes: usize,
    allow_panics: bool,
}

fn gen_op(r: &mut Rng, g: &mut Gen, live: usize, edges: usize) -> Option<Op> {
    if g.done >= g.steps {
        return None;
    }
    if g.init > 0 {
        g.init -= 1;
        // building phase: mostly nodes first, then edges
        if live < 2 || r.chance(1, 3) {
            return Some(Op::ka(O_ADD_NODE, r.range(0, 3)));
        }
        return Some(Op::kab(O_ADD_EDGE, r.range(0, live as i64 - 1), r.range(0, live as i64 - 1)));
    }
    let w = [
        if live < g.max_nodes { 3u32 } else { 0 },
        if live > 0 { 6 } else { 0 },
        if edges > 0 { 2 } else { 0 },
        if live > 0 { 2 } else { 0 },
        if live > 0 { 10 } else { 0 },
        2,
        if g.allow_switch { 1 } else { 0 },
        if live > 0 && g.allow_panics { 1 } else { 0 },
        if g.allow_panics { 1 } else { 0 },
    ];
    let k = r.weighted(&w) as u8;
    let _ = g.allow_cycles;
    Some(match k {
        O_ADD_NODE => Op::ka(k, r.range(0, 3)),
        O_ADD_EDGE => Op::kab(k, r.range(0, live as i64 - 1), r.range(0, live as i64 - 1)),
        O_REMOVE_EDGE => Op::ka(k, r.range(0, edges as i64 - 1)),
        O_REMOVE_NODE | O_PROCESS => Op::ka(k, r.range(0, live as i64 - 1)),
        O_PROCESS_NODE_PANICS => Op::kab(k, r.range(0, live as i64 - 1), r.range(0, live as i64 - 1)),
        _ => Op::k(k),
    })
}

fn drive<H: Holder, G: GraphLike<H>>(src: &mut Source, obs: &mut Observer) -> Result<(), Violation> {
    let cap = src.cfg("processor_capacity", 0, 12, |r| r.range(0, 12)) as usize;
    let mut gen = Gen {
        // rare big graphs: the visit maps are bit sets in 32-bit blocks, so 33 and 65 nodes are thresholds
        max_nodes: src.cfg("max_nodes", 1, 70, |r| if r.chance(1, 25) { *r.pick(&[33i64, 40, 65, 70]) } else { 10 }) as usize,
        steps: 0,
        done: 0,
        init: 0,
        allow_cycles: src.cfg("allow_cycles", 0, 1, |r| r.chance(2, 3) as i64) == 1,
        allow_switch: src.cfg("allow_switch", 0, 1, |r| r.chance(1, 3) as i64) == 1,
        allow_panics: src.cfg("allow_panics", 0, 1, |r| r.chance(1, 3) as i64) == 1,
    };
    let big = gen.max_nodes > 10;
    gen.init = src.cfg("init_ops", 0, 200, |r| if big { r.range(60, 200) } else { r.range(0, 24) });
    gen.steps = src.cfg("steps", 0, 300, |r| if big { gen.init as i64 as i64 + r.range(10, 100) } else { r.range(2, 60) }) as usize;
    let max_edges = 24.max(gen.max_nodes * 2);
    let log: Log = Arc::new(Mutex::new(Vec::new()));
    let call = Arc::new(AtomicU32::new(0));
    let fail_tag = Arc::new(AtomicU32::new(0));
    let mut next_tag = 1u32;
    let mut worlds: Vec<World<G>> = (0..2)
        .map(|_| World {
            g: G::new_with_capacity(4, 4),
            m: Mirror::new(G::STABLE),
            last_out_tag: None,
            dirty_node_removed: false,
            dirty_edge_removed: false,
        })
        .collect();
    let mut active = 0usize;
    let mut p: Processor<G> = G::make_processor(cap);
    let mut last_processed_world: Option<usize> = None;
    let mut max_processed_nodes = 0usize;

    loop {
        let (live_n, edges_n) = {
            let w = &worlds[active];
            (w.m.live().len(), w.m.edges.len())
        };
        let op = src.next_op(|r| gen_op(r, &mut gen, live_n, edges_n));
        let Some(op) = op else { break };
        gen.done += 1;
        let w = &mut worlds[active];
        let live = w.m.live();
        let pick = |pos: i64| -> Option<usize> {
            if live.is_empty() {
                None
            } else {
                Some(live[(pos.max(0) as usize) % live.len()])
            }
        };
        match op.k {
            O_ADD_NODE => {
                if live.len() >= gen.max_nodes {
                    src.skip_last();
                    obs.skipped();
                    continue;
                }
                obs.tick(op.k);
                let nbuf = op.a.clamp(0, 3) as usize;
                if nbuf == 0 {
                    obs.probe(P_ZERO_BUFFER_NODE);
                }
                let tag = next_tag;
                next_tag += 1;
                let node = ProbeNode {
                    tag,
                    log: log.clone(),
                    call: call.clone(),
                    fail_tag: fail_tag.clone(),
                };
                let idx = w.g.add(NodeData::new(H::hold(node), vec![Buffer::SILENT; nbuf]));
                w.m.add_at(idx.index(), NodeM { tag, nbuf });
                if w.m.live().len() == 10 {
                    obs.probe(P_TEN_NODES);
                }
                if w.m.live().len() == 33 {
                    obs.probe(P_33_NODES);
                }
            }
            O_ADD_EDGE => {
                let (Some(a), Some(b)) = (pick(op.a), pick(op.b)) else {
                    src.skip_last();
                    obs.skipped();
                    continue;
                };
                if w.m.edges.len() >= max_edges || (!gen.allow_cycles && w.m.would_cycle(a, b)) {
                    src.skip_last();
                    obs.skipped();
                    continue;
                }
                obs.tick(op.k);
                if a == b {
                    obs.fault(F_SELF_LOOP);
                } else if w.m.would_cycle(a, b) {
                    obs.fault(F_CYCLE);
                }
                if w.m.edges.contains(&(a, b)) {
                    obs.fault(F_PARALLEL_EDGE);
                }
                w.g.connect(NodeIndex::new(a), NodeIndex::new(b));
                w.m.edges.push((a, b));
            }
            O_REMOVE_EDGE => {
                if w.m.edges.is_empty() {
                    src.skip_last();
                    obs.skipped();
                    continue;
                }
                obs.tick(op.k);
                let (a, b) = w.m.edges[(op.a.max(0) as usize) % w.m.edges.len()];
                let ok = w.g.disconnect_one(NodeIndex::new(a), NodeIndex::new(b));
                assert!(ok, "harness mirror: edge {}->{} not found in the real graph", a, b);
                w.m.remove_edge(a, b);
                w.dirty_edge_removed = true;
            }
            O_REMOVE_NODE => {
                let Some(a) = pick(op.a) else {
                    src.skip_last();
                    obs.skipped();
                    continue;
                };
                obs.tick(op.k);
                let removed = w.g.remove(NodeIndex::new(a));
                assert!(removed.is_some(), "harness mirror: node {} not in the real graph", a);
                if !G::STABLE && a + 1 != w.m.slots.len() {
                    obs.fault(F_INDEX_RENUMBERED);
                }
                w.m.remove(a);
                w.dirty_node_removed = true;
            }
            O_SWITCH_GRAPH => {
                obs.tick(op.k);
                active = 1 - active;
                continue;
            }
            O_PROCESS_NODE_PANICS | O_PROCESS_MISSING => {
                // a crash in the middle of a traversal: the host catches the unwind and keeps using
                // the same Processor; the *next* calls are checked as usual
                let missing = op.k == O_PROCESS_MISSING;
                let target = if missing {
                    Some(NodeIndex::new(w.m.slots.len() + 3))
                } else {
                    pick(op.a).map(NodeIndex::new)
                };
                let Some(target) = target else {
                    src.skip_last();
                    obs.skipped();
                    continue;
                };
                obs.tick(op.k);
                call.fetch_add(1, Ordering::Relaxed);
                if call.load(Ordering::Relaxed) > 1 {
                    obs.inflight();
                }
                let mut up: Vec<usize> = Vec::new();
                if !missing {
                    up = w.m.upstream(target.index());
                    let victim = pick(op.b).unwrap();
                    fail_tag.store(w.m.slots[victim].as_ref().unwrap().tag, Ordering::Relaxed);
                }
                log.lock().unwrap_or_else(|e| e.into_inner()).clear();
                let g = &mut w.g;
                let r = std::panic::catch_unwind(std::panic::AssertUnwindSafe(|| g.run(&mut p, target)));
                let victim_tag = fail_tag.swap(0, Ordering::Relaxed);
                let calls = std::mem::take(&mut *log.lock().unwrap_or_else(|e| e.into_inner()));
                if missing {
                    obs.fault(F_MISSING_INDEX);
                    // what such a call does is not part of the property (today: the documented panic);
                    // only the calls that follow are judged
                    let _ = (&r, &calls);
                } else {
                    // victim_tag == 0 means the victim was reached and did panic
                    let fired = victim_tag == 0;
                    check_eq!(obs, r.is_err(), fired, "graph.node-panic-propagates", "process() unwinds exactly when the failing node is invoked");
                    if fired {
                        obs.fault(F_NODE_PANIC);
                    }
                    // whatever ran before the failure still belongs to the upstream set, at most once each
                    let mut tags: Vec<u32> = calls.iter().map(|c| c.tag).collect();
                    tags.sort();
                    let n_before = tags.len();
                    tags.dedup();
                    check_eq!(obs, tags.len(), n_before, "graph.processed-set", "a node was invoked twice in a call that was cut short by a panic");
                    for t in &tags {
                        check!(
                            obs,
                            up.iter().any(|&n| w.m.slots[n].as_ref().unwrap().tag == *t),
                            "graph.processed-set",
                            "node tag {} was invoked although it has no path to the output",
                            t
                        );
                    }
                }
                last_processed_world = Some(active);
                w.last_out_tag = None;
                continue;
            }
            O_SOURCES_SINKS => {
                obs.tick(op.k);
                if w.m.has_vacancy() {
                    obs.fault(F_VACANT_SLOT);
                    obs.probe(P_SOURCES_WITH_VACANCY);
                    obs.inflight();
                }
                let mut want_src: Vec<usize> = live.iter().copied().filter(|&n| !w.m.edges.iter().any(|&(_, b)| b == n)).collect();
                let mut want_snk: Vec<usize> = live.iter().copied().filter(|&n| !w.m.edges.iter().any(|&(a, _)| a == n)).collect();
                want_src.sort();
                want_snk.sort();
                let mut got_src: Vec<usize> = w.g.list_sources().iter().map(|i| i.index()).collect();
                let mut got_snk: Vec<usize> = w.g.list_sinks().iter().map(|i| i.index()).collect();
                got_src.sort();
                got_snk.sort();
                check_eq!(obs, got_src, want_src, "graph.sources", "sources() vs existing nodes without incoming edges (live {:?}, edges {:?})", live, w.m.edges);
                check_eq!(obs, got_snk, want_snk, "graph.sinks", "sinks() vs existing nodes without outgoing edges (live {:?}, edges {:?})", live, w.m.edges);
            }
            O_PROCESS => {
                let Some(out) = pick(op.a) else {
                    src.skip_last();
                    obs.skipped();
                    continue;
                };
                obs.tick(op.k);
                obs.note(out as u64);
                call.fetch_add(1, Ordering::Relaxed);
                let this_call = call.load(Ordering::Relaxed);
                if this_call > 1 {
                    obs.inflight();
                }
                if w.dirty_node_removed {
                    obs.fault(F_NODE_REMOVED);
                }
                if w.dirty_edge_removed {
                    obs.fault(F_EDGE_REMOVED);
                }
                w.dirty_node_removed = false;
                w.dirty_edge_removed = false;
                if w.m.has_vacancy() {
                    obs.fault(F_VACANT_SLOT);
                }
                if last_processed_world.is_some() && last_processed_world != Some(active) {
                    obs.fault(F_OTHER_GRAPH);
                }
                let out_tag = w.m.slots[out].as_ref().unwrap().tag;
                if w.last_out_tag.is_some() && w.last_out_tag != Some(out_tag) {
                    obs.fault(F_OUTPUT_MOVED);
                }
                w.last_out_tag = Some(out_tag);
                last_processed_world = Some(active);
                let up = w.m.upstream(out);
                if up.len() > max_processed_nodes.max(cap) && this_call > 1 {
                    obs.fault(F_BIGGER_GRAPH);
                }
                max_processed_nodes = max_processed_nodes.max(up.len());
                if up.len() < live.len() {
                    obs.probe(P_UNREACHABLE_ISLAND);
                }
                let acyclic = w.m.topo(&up).is_some();
                if !acyclic && w.m.edges.iter().any(|&(a, b)| a == out && a != b && up.contains(&b)) {
                    obs.probe(P_CYCLE_THROUGH_OUTPUT);
                }
                // a diamond: some node feeds two different nodes of the upstream set
                if up.iter().any(|&n| {
                    let mut outs: Vec<usize> = w.m.edges.iter().filter(|&&(a, b)| a == n && b != n && up.contains(&b)).map(|e| e.1).collect();
                    outs.sort();
                    outs.dedup();
                    outs.len() >= 2
                }) {
                    obs.probe(P_DIAMOND);
                }

                log.lock().unwrap_or_else(|e| e.into_inner()).clear();
                w.g.run(&mut p, NodeIndex::new(out));
                let calls = std::mem::take(&mut *log.lock().unwrap_or_else(|e| e.into_inner()));

                // 1. exactly the upstream set, each exactly once
                let mut got_tags: Vec<u32> = calls.iter().map(|c| c.tag).collect();
                for t in &got_tags {
                    obs.note(*t as u64);
                }
                got_tags.sort();
                let mut want_tags: Vec<u32> = up.iter().map(|&n| w.m.slots[n].as_ref().unwrap().tag).collect();
                want_tags.sort();
                check_eq!(
                    obs,
                    got_tags,
                    want_tags,
                    "graph.processed-set",
                    "nodes invoked by process(output tag {}) vs nodes with a path to it (edges {:?}, call {})",
                    out_tag,
                    w.m.edges,
                    this_call
                );
                // 2. inputs of every invocation
                let ptr_of = |n: usize| -> (usize, usize) {
                    let d = w.g.weight(NodeIndex::new(n)).unwrap();
                    (d.buffers.as_ptr() as usize, d.buffers.len())
                };
                for c in &calls {
                    let n = up.iter().copied().find(|&n| w.m.slots[n].as_ref().unwrap().tag == c.tag).unwrap();
                    let (own_ptr, own_len) = ptr_of(n);
                    check_eq!(obs, (c.own_ptr, c.own_len), (own_ptr, own_len), "graph.own-buffers", "output slice handed to node tag {}", c.tag);
                    let mut want: Vec<(usize, usize)> = w.m.edges.iter().filter(|&&(a, b)| b == n && a != n).map(|&(a, _)| ptr_of(a)).collect();
                    want.sort();
                    let mut got: Vec<(usize, usize)> = c.inputs.iter().map(|i| (i.0, i.1)).collect();
                    got.sort();
                    check_eq!(
                        obs,
                        got,
                        want,
                        "graph.inputs",
                        "inputs (buffer pointer, buffer count) given to node tag {}: one per incoming edge from a different node",
                        c.tag
                    );
                    if own_len > 0 {
                        check!(
                            obs,
                            !c.inputs.iter().any(|i| i.0 == own_ptr && i.1 > 0),
                            "graph.self-input",
                            "node tag {} was handed its own buffers as an input",
                            c.tag
                        );
                    }
                    // 3. inputs first (acyclic upstream only)
                    if acyclic {
                        for i in &c.inputs {
                            if i.1 == 0 {
                                continue;
                            }
                            let src_n = up.iter().copied().find(|&m| ptr_of(m) == (i.0, i.1));
                            let Some(src_n) = src_n else { continue };
                            let src_tag = w.m.slots[src_n].as_ref().unwrap().tag;
                            obs.probe(P_ACYCLIC_ORDER_CHECKED);
                            check!(
                                obs,
                                i.2 == src_tag as f32 && i.3 == this_call as f32,
                                "graph.inputs-first",
                                "node tag {} read input from node tag {} stamped (tag {}, call {}) during call {}: the input had not been processed yet",
                                c.tag,
                                src_tag,
                                i.2,
                                i.3,
                                this_call
                            );
                        }
                    }
                }
                let abs = (up.len() as u64) << 8 | (acyclic as u64) << 1 | w.m.has_vacancy() as u64;
                obs.state(abs ^ (w.m.edges.len() as u64) << 16, op.k);
            }
            _ => {
                src.skip_last();
                obs.skipped();
                continue;
            }
        }
        // the harness mirror must agree with petgraph (a mismatch is a harness bug, not a finding)
        let w = &worlds[active];
        assert_eq!(w.g.count(), w.m.live().len(), "harness mirror: node count");
        for n in w.m.live() {
            let nb = w.g.weight(NodeIndex::new(n)).map(|d| d.buffers.len());
            assert_eq!(nb, Some(w.m.slots[n].as_ref().unwrap().nbuf), "harness mirror: buffer count at index {}", n);
        }
    }
    Ok(())
}

impl Scenario for GraphScenario {
    fn name(&self) -> &'static str {
        "graph"
    }
    fn property(&self) -> &'static str {
        "C09"
    }
    fn ops(&self) -> &'static [OpSpec] {
        &OPS
    }
    fn faults(&self) -> &'static [&'static str] {
        &[
            "process after a node was removed",
            "process after an edge was removed",
            "edge added that closes a cycle",
            "processor reused on the other graph",
            "processor reused on a bigger upstream set than before / than its capacity",
            "output node moved",
            "StableGraph with vacant slots",
            "self-loop added",
            "parallel edge added",
            "Graph::remove_node renumbered the last node",
            "a node's process() panicked mid-traversal; the host caught it and keeps using the Processor",
            "process() called with an index that names no node (documented panic), caught, Processor reused",
        ]
    }
    fn probes(&self) -> &'static [&'static str] {
        &[
            "unreachable island present during process",
            "diamond / shared sub-expression upstream",
            "cycle through the output node",
            "ten nodes",
            "sources()/sinks() on a StableGraph with vacant slots",
            "inputs-first stamp checked (acyclic upstream)",
            "node with zero buffers",
            "33 nodes (second block of the visit bit set)",
        ]
    }
    fn rule(&self) -> &'static str {
        "case = (Graph or StableGraph, processor capacity, seeded build ops then add/remove node, add/remove edge (self-loops, parallel, \
         back edges), process(any output), sources/sinks, switch between two graphs on one Processor); non-trivial = at least one \
         fault kind fired and at least one process call on a reused processor (or sources/sinks with vacant slots); distinct = hash \
         of (ops, invocation order observed)"
    }
    fn real(&self) -> &'static [&'static str] {
        &["dasp_graph::{Processor, process, sources, sinks, NodeData, Input}", "petgraph 0.5.1 Graph / StableGraph (third party)"]
    }
    fn stubs(&self) -> &'static [&'static str] {
        &["ProbeNode (logs invocation, inputs seen, stamps buffers)", "adjacency-list mirror with reachability / topological-order reference"]
    }
    fn assumptions(&self) -> &'static [&'static str] {
        &["inputs are compared as multisets (the property fixes no order among a node's inputs)"]
    }
    fn runs(&self, tier: &str) -> u64 {
        if tier == "quick" {
            500_000
        } else {
            20_000_000
        }
    }
    fn run(&self, src: &mut Source, obs: &mut Observer) -> Result<(), Violation> {
        let stable = src.cfg("stable_graph", 0, 1, |r| r.range(0, 1)) == 1;
        obs.note(stable as u64);
        // how the nodes are held: mostly bare, sometimes behind each of the library's wrappers
        let holder = src.cfg("holder", 0, 3, |r| if r.chance(1, 2) { 0 } else { r.range(1, 3) });
        obs.note(holder as u64);
        match (stable, holder) {
            (true, 0) => drive::<ProbeNode, StableGraph<NodeData<ProbeNode>, ()>>(src, obs),
            (false, 0) => drive::<ProbeNode, Graph<NodeData<ProbeNode>, ()>>(src, obs),
            (true, 1) => drive::<BoxedNode, StableGraph<NodeData<BoxedNode>, ()>>(src, obs),
            (false, 1) => drive::<BoxedNode, Graph<NodeData<BoxedNode>, ()>>(src, obs),
            (true, 2) => drive::<BoxedNodeSend, StableGraph<NodeData<BoxedNodeSend>, ()>>(src, obs),
            (false, 2) => drive::<BoxedNodeSend, Graph<NodeData<BoxedNodeSend>, ()>>(src, obs),
            (true, _) => drive::<Box<dyn Node>, StableGraph<NodeData<Box<dyn Node>>, ()>>(src, obs),
            (false, _) => drive::<Box<dyn Node>, Graph<NodeData<Box<dyn Node>>, ()>>(src, obs),
        }
    }
}
