//! C07 (graph part) — graph processing with the stock nodes allocates nothing once a processor
//! has processed a graph of that size once.
//!
//! A seeded DAG of stock nodes is built and processed once with the allocator disarmed (warm-up);
//! afterwards every `process` call runs with the allocator armed, also after the operator has
//! re-wired the graph or replaced nodes *without growing it* and after the output node moved.

use crate::glike::{GraphLike, Mirror};
use crate::nodes::{make_node, new_model, NodeM, Wrap, KIND_NAMES, K_DELAY, K_GRAPHNODE, K_PASS, K_PASS_BOXED_TWICE, N_KINDS};
use dasp_graph::{BoxedNode, BoxedNodeSend, Buffer, NodeData, Processor};
use petgraph::graph::{Graph, NodeIndex};
use petgraph::stable_graph::StableGraph;
use simcore::alloc::armed;
use simcore::{check, Observer, Op, OpSpec, Rng, Scenario, Source, Violation};

pub struct GraphAllocScenario;

const O_ADD_NODE: u8 = 0;
const O_ADD_EDGE: u8 = 1;
const O_WARMUP: u8 = 2;
const O_PROCESS: u8 = 3;
const O_REWIRE_REMOVE: u8 = 4;
const O_REWIRE_ADD: u8 = 5;
const O_REPLACE_NODE: u8 = 6;
const O_ADD_EDGES_MANY: u8 = 7; // a, b = nodes, c = how many parallel edges (fan-in far above the node count)

static OPS: [OpSpec; 8] = [
    OpSpec { name: "add_node", shrink: 6 },
    OpSpec { name: "add_edge", shrink: 3 },
    OpSpec { name: "warmup_process", shrink: 1 },
    OpSpec { name: "armed_process", shrink: 1 },
    OpSpec { name: "remove_edge", shrink: 1 },
    OpSpec { name: "add_edge_after_warmup", shrink: 3 },
    OpSpec { name: "replace_node", shrink: 7 },
    OpSpec { name: "add_many_parallel_edges", shrink: 7 },
];

const F_ARMED: usize = 0;
const F_REWIRED: usize = 1;
const F_OUTPUT_MOVED: usize = 2;
const F_NODE_REPLACED: usize = 3;
const F_CAPACITY_TIGHT: usize = 4;
const F_FAILED_CALL: usize = 5;

const P_EIGHT_NODES: usize = 0;
const P_ARMED_10: usize = 1;
const P_MULTI_EDGE: usize = 2;
const P_STACK_BEYOND_NODES: usize = 3;
const P_WIDE_FAN_IN: usize = 4;

/// What one `process(out)` call demands from the processor's two vectors: the deepest the
/// traversal stack gets (petgraph's DfsPostOrder pushes every not-yet-discovered neighbour, so a
/// node can sit on the stack several times) and the largest number of inputs of a visited node.
fn demand<W: Wrap, G: GraphLike<W>>(g: &G, slots: usize, out: usize) -> (usize, usize) {
    let mut discovered = vec![false; slots];
    let mut finished = vec![false; slots];
    let mut stack = vec![out];
    let mut deepest = 1usize;
    let mut max_inputs = 0usize;
    while let Some(&nx) = stack.last() {
        if !discovered[nx] {
            discovered[nx] = true;
            let inc = g.incoming(NodeIndex::new(nx));
            max_inputs = max_inputs.max(inc.iter().filter(|i| i.index() != nx).count());
            for succ in inc {
                if !discovered[succ.index()] {
                    stack.push(succ.index());
                }
            }
            deepest = deepest.max(stack.len());
        } else {
            stack.pop();
            if !finished[nx] {
                finished[nx] = true;
            }
        }
    }
    (deepest, max_inputs)
}

fn drive<W: Wrap, G: GraphLike<W>>(src: &mut Source, obs: &mut Observer) -> Result<(), Violation> {
    if !simcore::alloc::installed() {
        panic!("harness: counting allocator is not installed");
    }
    let n_build = src.cfg("build_ops", 1, 24, |r| r.range(2, 24)) as usize;
    let steps = src.cfg("steps", 1, 40, |r| r.range(2, 40)) as usize;
    let slack = src.cfg("capacity_slack", 0, 4, |r| if r.bool() { 0 } else { r.range(0, 4) }) as usize;
    let mut g: G = G::new_with_capacity(8, 24);
    let mut m: Mirror<NodeM> = Mirror::new(G::STABLE);
    let mut next_tag = 1u32;
    let mut done = 0usize;
    let mut p: Option<Processor<G>> = None;
    let mut warm_nodes = 0usize;
    let mut warm_edges = 0usize;
    let mut armed_calls = 0u32;
    let mut last_out: Option<usize> = None;
    let mut rewired = false;
    // lower bounds of the capacities the processor's vectors certainly have by now
    let mut stack_cap = 0usize;
    let mut inputs_cap = 0usize;
    loop {
        let warm = p.is_some();
        let (live_n, edges_n) = (m.live().len(), m.edges.len());
        let op = src.next_op(|r: &mut Rng| {
            if done >= n_build + steps {
                return None;
            }
            if !warm {
                if done < n_build {
                    if live_n >= 2 && r.chance(1, 60) {
                        return Some(Op::new(O_ADD_EDGES_MANY, r.range(0, live_n as i64 - 1), r.range(0, live_n as i64 - 1), *r.pick(&[40i64, 300, 1100, 2100])));
                    }
                    if live_n < 2 || (live_n < 8 && r.chance(2, 5)) {
                        return Some(Op::new(O_ADD_NODE, r.range(0, N_KINDS - 1), *r.pick(&[0i64, 1, 1, 2, 2, 3]), r.range(0, 4000)));
                    }
                    return Some(Op::kab(O_ADD_EDGE, r.range(0, live_n as i64 - 1), r.range(0, live_n as i64 - 1)));
                }
                return Some(Op::ka(O_WARMUP, r.range(0, live_n.max(1) as i64 - 1)));
            }
            let w = [0u32, 0, 0, 12, if edges_n > 0 { 2 } else { 0 }, 2, 1];
            Some(match r.weighted(&w) as u8 {
                // b = 1: a failed call (no node for the index: the documented panic, caught by the host) precedes it
                O_PROCESS => Op::kab(O_PROCESS, if r.chance(2, 3) { last_out.unwrap_or(0) as i64 } else { r.range(0, live_n as i64 - 1) }, r.chance(1, 8) as i64),
                O_REWIRE_REMOVE => Op::ka(O_REWIRE_REMOVE, r.range(0, edges_n as i64 - 1)),
                O_REWIRE_ADD => Op::kab(O_REWIRE_ADD, r.range(0, live_n as i64 - 1), r.range(0, live_n as i64 - 1)),
                _ => Op::new(O_REPLACE_NODE, r.range(0, live_n as i64 - 1), r.range(0, N_KINDS - 1), r.range(0, 4000)),
            })
        });
        let Some(op) = op else { break };
        done += 1;
        let live = m.live();
        let pick = |pos: i64| -> Option<usize> {
            if live.is_empty() {
                None
            } else {
                Some(live[(pos.max(0) as usize) % live.len()])
            }
        };
        let edge_ok = |m: &Mirror<NodeM>, a: usize, b: usize| -> bool {
            let kb = m.slots[b].as_ref().unwrap().kind;
            let single = matches!(kb, K_PASS | K_PASS_BOXED_TWICE | K_DELAY);
            let other = m.edges.iter().any(|&(x, y)| y == b && x != b && x != a);
            !(a != b && m.would_cycle(a, b)) && !(single && other && a != b)
        };
        match op.k {
            O_ADD_NODE if !warm => {
                if live.len() >= 8 {
                    src.skip_last();
                    obs.skipped();
                    continue;
                }
                let model = new_model(next_tag, op.a.rem_euclid(N_KINDS), op.b.clamp(0, 3) as usize, op.c, 0.0);
                let Some(node) = make_node::<W>(&model, op.c, false) else {
                    src.skip_last();
                    obs.skipped();
                    continue;
                };
                obs.tick(op.k);
                next_tag += 1;
                let nb = model.bufs.len();
                let idx = g.add(NodeData::new(node, vec![Buffer::SILENT; nb]));
                m.add_at(idx.index(), model);
                if m.live().len() == 8 {
                    obs.probe(P_EIGHT_NODES);
                }
            }
            O_ADD_EDGE | O_REWIRE_ADD => {
                let (Some(a), Some(b)) = (pick(op.a), pick(op.b)) else {
                    src.skip_last();
                    obs.skipped();
                    continue;
                };
                // after the warm-up the graph must not grow: never more edges than it had then
                let grows = warm && m.edges.len() >= warm_edges;
                if (op.k == O_ADD_EDGE) == warm || grows || m.edges.len() >= 24 || !edge_ok(&m, a, b) {
                    src.skip_last();
                    obs.skipped();
                    continue;
                }
                obs.tick(op.k);
                if m.edges.contains(&(a, b)) {
                    obs.probe(P_MULTI_EDGE);
                }
                g.connect(NodeIndex::new(a), NodeIndex::new(b));
                m.edges.push((a, b));
                rewired = warm;
            }
            O_ADD_EDGES_MANY if !warm => {
                let (Some(a), Some(b)) = (pick(op.a), pick(op.b)) else {
                    src.skip_last();
                    obs.skipped();
                    continue;
                };
                let k = op.c.clamp(1, 2200) as usize;
                if a == b || m.edges.len() + k > 2400 || !edge_ok(&m, a, b) {
                    src.skip_last();
                    obs.skipped();
                    continue;
                }
                obs.tick(op.k);
                obs.probe(P_MULTI_EDGE);
                obs.probe(P_WIDE_FAN_IN);
                for _ in 0..k {
                    g.connect(NodeIndex::new(a), NodeIndex::new(b));
                    m.edges.push((a, b));
                }
            }
            O_REWIRE_REMOVE if warm => {
                if m.edges.is_empty() {
                    src.skip_last();
                    obs.skipped();
                    continue;
                }
                obs.tick(op.k);
                let (a, b) = m.edges[(op.a.max(0) as usize) % m.edges.len()];
                assert!(g.disconnect_one(NodeIndex::new(a), NodeIndex::new(b)), "harness mirror: edge missing");
                m.remove_edge(a, b);
                rewired = true;
            }
            O_REPLACE_NODE if warm => {
                // remove a node and add a fresh one: the node count does not grow
                let Some(a) = pick(op.a) else {
                    src.skip_last();
                    obs.skipped();
                    continue;
                };
                let nb = m.slots[a].as_ref().unwrap().bufs.len();
                let model = new_model(next_tag, op.b.rem_euclid(N_KINDS), nb, op.c, 0.0);
                let Some(node) = make_node::<W>(&model, op.c, false) else {
                    src.skip_last();
                    obs.skipped();
                    continue;
                };
                obs.tick(op.k);
                obs.fault(F_NODE_REPLACED);
                next_tag += 1;
                assert!(g.remove(NodeIndex::new(a)).is_some(), "harness mirror: node missing");
                m.remove(a);
                let is_nested = model.kind == K_GRAPHNODE;
                let idx = g.add(NodeData::new(node, vec![Buffer::SILENT; nb]));
                m.add_at(idx.index(), model);
                if is_nested {
                    // a nested graph node brings its own, not yet warmed-up inner Processor: the
                    // property's precondition ("has processed a graph of that size once") applies to it too
                    g.run(p.as_mut().unwrap(), idx);
                    let (d, i) = demand::<W, G>(&g, m.slots.len(), idx.index());
                    stack_cap = stack_cap.max(d);
                    inputs_cap = inputs_cap.max(i);
                }
                if last_out == Some(a) {
                    last_out = None;
                }
                // renumbering (Graph) may have moved the old output: re-resolve by position
                last_out = last_out.filter(|&o| m.slots.get(o).map(|s| s.is_some()).unwrap_or(false));
                rewired = true;
            }
            O_WARMUP if !warm => {
                let Some(out) = pick(op.a) else {
                    src.skip_last();
                    obs.skipped();
                    continue;
                };
                obs.tick(op.k);
                warm_nodes = live.len();
                warm_edges = m.edges.len();
                if slack == 0 {
                    obs.fault(F_CAPACITY_TIGHT);
                }
                let mut proc_ = G::make_processor(warm_nodes + slack);
                stack_cap = warm_nodes + slack;
                inputs_cap = warm_nodes + slack;
                // first call on every possible output: "has processed a graph of that size once"
                g.run(&mut proc_, NodeIndex::new(out));
                for &o in &live {
                    g.run(&mut proc_, NodeIndex::new(o));
                    let (d, i) = demand::<W, G>(&g, m.slots.len(), o);
                    stack_cap = stack_cap.max(d);
                    inputs_cap = inputs_cap.max(i);
                }
                p = Some(proc_);
                last_out = Some(out);
            }
            O_PROCESS if warm => {
                let Some(out) = pick(op.a) else {
                    src.skip_last();
                    obs.skipped();
                    continue;
                };
                obs.tick(op.k);
                obs.fault(F_ARMED);
                obs.inflight();
                if rewired {
                    obs.fault(F_REWIRED);
                }
                if last_out.is_some() && last_out != Some(out) {
                    obs.fault(F_OUTPUT_MOVED);
                }
                let was_rewired = rewired;
                rewired = false;
                last_out = Some(out);
                armed_calls += 1;
                if armed_calls >= 10 {
                    obs.probe(P_ARMED_10);
                }
                let proc_ = p.as_mut().unwrap();
                let (need_stack, need_inputs) = demand::<W, G>(&g, m.slots.len(), out);
                let stack_outgrown = need_stack > stack_cap;
                let inputs_outgrown = need_inputs > inputs_cap;
                if stack_outgrown {
                    obs.probe(P_STACK_BEYOND_NODES);
                }
                if op.b == 1 {
                    // crash injection (unarmed: unwinding itself may use the heap): a process() call that
                    // fails — here the documented panic for an index without a node — is caught by the host,
                    // which keeps graph and processor; the graph's size has not changed, so the steady-state
                    // promise still covers the calls that follow
                    let missing = NodeIndex::new(m.slots.len() + 7);
                    let r = std::panic::catch_unwind(std::panic::AssertUnwindSafe(|| g.run(proc_, missing)));
                    if r.is_err() {
                        obs.fault(F_FAILED_CALL);
                    }
                }
                let ((), seen) = armed(|| g.run(proc_, NodeIndex::new(out)));
                stack_cap = stack_cap.max(need_stack);
                inputs_cap = inputs_cap.max(need_inputs);
                if seen.events > 0 && (stack_outgrown || inputs_outgrown) {
                    // the traversal stack / input list is sized by the *node* count, but what this
                    // shape demands is driven by its edges: classified separately (see DESIGN 8, F5)
                    check!(
                        obs,
                        false,
                        if stack_outgrown { "alloc.graph-dfs-stack-outgrows-node-capacity" } else { "alloc.graph-inputs-outgrow-node-capacity" },
                        "process() on a re-wired graph of unchanged size touched the heap: {} — traversal stack needs {} entries, input list {} (capacities known so far {} / {}; {} nodes, {} edges; at warm-up {} nodes, {} edges; Processor::with_capacity({}))",
                        seen.describe(),
                        need_stack,
                        need_inputs,
                        stack_cap.min(need_stack),
                        inputs_cap.min(need_inputs),
                        m.live().len(),
                        m.edges.len(),
                        warm_nodes,
                        warm_edges,
                        warm_nodes + slack
                    );
                }
                let kinds: Vec<&str> = m.upstream(out).iter().map(|&n| KIND_NAMES[m.slots[n].as_ref().unwrap().kind as usize]).collect();
                check!(
                    obs,
                    seen.events == 0,
                    if was_rewired { "alloc.graph-process-after-rewire" } else { "alloc.graph-process" },
                    "process() call {} after warm-up touched the heap: {} ({} nodes, {} edges now; {} nodes, {} edges at warm-up; processor capacity {}; upstream kinds {:?}; wrapper {})",
                    armed_calls,
                    seen.describe(),
                    m.live().len(),
                    m.edges.len(),
                    warm_nodes,
                    warm_edges,
                    warm_nodes + slack,
                    kinds,
                    W::NAME
                );
                obs.state((m.live().len() as u64) << 8 | m.edges.len() as u64, op.k);
            }
            _ => {
                src.skip_last();
                obs.skipped();
                continue;
            }
        }
    }
    Ok(())
}

impl Scenario for GraphAllocScenario {
    fn name(&self) -> &'static str {
        "alloc-graph"
    }
    fn property(&self) -> &'static str {
        "C07"
    }
    fn ops(&self) -> &'static [OpSpec] {
        &OPS
    }
    fn faults(&self) -> &'static [&'static str] {
        &[
            "process() executed with the allocator armed",
            "graph re-wired (edges removed/added, never more than at warm-up) before an armed process()",
            "output node moved before an armed process()",
            "node replaced (remove + add, same count) before an armed process()",
            "processor capacity exactly the node count",
            "a failed process() call (missing index: documented panic, caught by the host) right before an armed one",
        ]
    }
    fn probes(&self) -> &'static [&'static str] {
        &[
            "eight nodes",
            ">= 10 armed process calls in one run",
            "parallel edge",
            "armed process() whose traversal needs a deeper stack than any earlier call (F5 region)",
            "node with tens to thousands of parallel input edges",
        ]
    }
    fn rule(&self) -> &'static str {
        "case = (Graph/StableGraph x wrapper, seeded DAG of stock nodes, Processor::with_capacity(node count + slack), warm-up process on          every node, then armed process calls interleaved with re-wiring / node replacement that never grows the graph); non-trivial =          armed process calls executed; distinct = hash of ops"
    }
    fn real(&self) -> &'static [&'static str] {
        &["dasp_graph::{Processor, process} and all stock nodes from /repo", "petgraph 0.5.1 traversal state (third party)"]
    }
    fn stubs(&self) -> &'static [&'static str] {
        &["CountingAlloc global allocator wrapper", "seeded source nodes"]
    }
    fn assumptions(&self) -> &'static [&'static str] {
        &["'a graph of that size': after the warm-up the node count and the edge count never exceed their warm-up values"]
    }
    fn runs(&self, tier: &str) -> u64 {
        if tier == "quick" {
            150_000
        } else {
            20_000_000
        }
    }
    fn run(&self, src: &mut Source, obs: &mut Observer) -> Result<(), Violation> {
        let stable = src.cfg("stable_graph", 0, 1, |r| r.range(0, 1)) == 1;
        let wrapper = src.cfg("wrapper", 0, 2, |r| r.range(0, 2));
        obs.note(stable as u64 * 4 + wrapper as u64);
        match (stable, wrapper) {
            (false, 0) => drive::<BoxedNode, Graph<NodeData<BoxedNode>, ()>>(src, obs),
            (false, 1) => drive::<BoxedNodeSend, Graph<NodeData<BoxedNodeSend>, ()>>(src, obs),
            (false, _) => drive::<Box<dyn dasp_graph::Node>, Graph<NodeData<Box<dyn dasp_graph::Node>>, ()>>(src, obs),
            (true, 0) => drive::<BoxedNode, StableGraph<NodeData<BoxedNode>, ()>>(src, obs),
            (true, 1) => drive::<BoxedNodeSend, StableGraph<NodeData<BoxedNodeSend>, ()>>(src, obs),
            (true, _) => drive::<Box<dyn dasp_graph::Node>, StableGraph<NodeData<Box<dyn dasp_graph::Node>>, ()>>(src, obs),
        }
    }
}
