//! dsim-nostd-signal: the oscillator, sinc, envelope and RMS-adaptor scenarios against the no_std
//! feature set of the dasp crates.  Without `std`, dasp_signal / dasp_interpolate / dasp_envelope
//! replace libm calls (floor, sin, cos, powf) by their own `core::intrinsics` twins in `ops`
//! modules; those twins are separate source lines that the std build never compiles.  Needs the
//! nightly toolchain, exactly as the repository's own no_std build does.
#![allow(dead_code)]
#[path = "../../dsim/src/adframe.rs"]
mod adframe;
#[path = "../../dsim/src/envelope.rs"]
mod envelope;
#[path = "../../dsim/src/osc.rs"]
mod osc;
#[path = "../../dsim/src/probe.rs"]
mod probe;
#[path = "../../dsim/src/raw.rs"]
mod raw;
#[path = "../../dsim/src/rms.rs"]
mod rms;
#[path = "../../dsim/src/sinc.rs"]
mod sinc;

use simcore::Scenario;

fn main() {
    let scens: Vec<&dyn Scenario> = vec![&osc::OscScenario, &sinc::SincScenario, &envelope::EnvelopeScenario, &rms::RmsScenario];
    simcore::cli::main(&scens)
}
